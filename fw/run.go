package fw

import (
	"crypto/sha1"
	"encoding/hex"
	"encoding/json"
	"fmt"
	"hash/fnv"
	"os"
	"path/filepath"
	"runtime"
	"runtime/debug"
	"sort"
	"strings"
	"sync"
	"sync/atomic"
	"time"
)

// Failure is one disagreement between the implementation and the oracle on one case.
type Failure struct {
	Class  string // stable class of the failure (violations are de-duplicated per class)
	Known  string // id of the known finding whose classifier (defect model) matched, or ""
	Detail string // expected vs observed, first differing point
}

// Rec collects what one evaluation observed. It is private to the evaluating goroutine.
type Rec struct {
	run        *Run
	outcome    string
	nontrivial string
	fails      []Failure
	describe   func() any
	sample     any
	states     int64
	trans      int64
	extra      map[string]int64
}

func (x *Rec) Outcome(s string)       { x.outcome = s }
func (x *Rec) Nontrivial(key string)  { x.nontrivial = key }
func (x *Rec) Describe(f func() any)  { x.describe = f }
func (x *Rec) Sample(v any)           { x.sample = v }
func (x *Rec) AddStates(n int64)      { x.states += n }
func (x *Rec) AddTransitions(n int64) { x.trans += n }
func (x *Rec) Count(key string, n int64) {
	if x.extra == nil {
		x.extra = map[string]int64{}
	}
	x.extra[key] += n
}
func (x *Rec) Fail(class, known, detail string) {
	x.fails = append(x.fails, Failure{Class: class, Known: known, Detail: detail})
}
func (x *Rec) Failed() bool { return len(x.fails) > 0 }
func (x *Rec) Run() *Run    { return x.run }

// ScopeStat is the coverage of one enumerated scope.
type ScopeStat struct {
	Name       string  `json:"name"`
	Mode       string  `json:"mode"`
	Bound      int     `json:"deviation_bound,omitempty"`
	Leaves     int64   `json:"executions"`
	Skipped    int64   `json:"excluded_by_grammar,omitempty"`
	Complete   bool    `json:"complete"`
	Outcomes   int     `json:"distinct_outcomes"`
	Nontrivial int     `json:"distinct_nontrivial"`
	WallS      float64 `json:"wall_s"`
	Note       string  `json:"note,omitempty"`
}

type violation struct {
	Failure
	Scope    string
	Seq      int64
	Vector   []int
	Labels   []string
	Describe any
	Count    int64
	Repro    string
}

// Run is the state of one check invocation.
type Run struct {
	ID, Tier string
	Level    string
	Seed     int64
	Root     string // /verif
	Workers  int
	Start    time.Time
	Deadline time.Time
	Rule     string
	Assume   []string
	Bounds   map[string]any
	Extra    map[string]any

	replayScope  string
	replayVector []int
	ReplayData   json.RawMessage

	mu          sync.Mutex
	evals       int64
	states      int64
	trans       int64
	outcomes    map[uint64]struct{}
	nontriv     map[uint64]struct{}
	samples     []any
	viol        map[string]*violation
	scopes      []*ScopeStat
	counters    map[string]int64
	deadlineHit bool
	harnessErr  []string
	replayFails []Failure
	replayRan   bool
	replayers   map[string]func([]int) []Failure
}

func NewRun(id, tier, level, root string) *Run {
	r := &Run{ID: id, Tier: tier, Level: level, Root: root, Workers: runtime.NumCPU(), Start: time.Now(),
		outcomes: map[uint64]struct{}{}, nontriv: map[uint64]struct{}{}, viol: map[string]*violation{},
		counters: map[string]int64{}, Bounds: map[string]any{}, Extra: map[string]any{}}
	fmt.Sscan(os.Getenv("VERIF_SEED"), &r.Seed)
	return r
}

func (r *Run) Quick() bool         { return r.Tier != "thorough" }
func (r *Run) Replaying() bool     { return r.replayScope != "" }
func (r *Run) ReplayScope() string { return r.replayScope }
func (r *Run) ReplayVector() []int { return r.replayVector }

// SetBudget sets the internal deadline: a run that reaches it stops exploring, reports what was
// completely covered and exits 0 with exhaustive:false. It is never an oracle.
func (r *Run) SetBudget(d time.Duration) {
	if s := os.Getenv("VERIF_DEADLINE"); s != "" && parseWorker() != nil {
		var u int64
		fmt.Sscan(s, &u)
		r.Deadline = time.Unix(u, 0) // a worker inherits the deadline of its parent
		return
	}
	r.Deadline = r.Start.Add(d)
}

func (r *Run) Expired() bool {
	if r.Deadline.IsZero() {
		return false
	}
	if time.Now().After(r.Deadline) {
		r.mu.Lock()
		r.deadlineHit = true
		r.mu.Unlock()
		return true
	}
	return false
}

func (r *Run) HarnessError(format string, a ...any) {
	r.mu.Lock()
	r.harnessErr = append(r.harnessErr, fmt.Sprintf(format, a...))
	r.mu.Unlock()
}

func (r *Run) AddCounter(key string, n int64) {
	r.mu.Lock()
	r.counters[key] += n
	r.mu.Unlock()
}

func h64(s string) uint64 { h := fnv.New64a(); h.Write([]byte(s)); return h.Sum64() }

const maxSamples = 4

// merge folds one evaluation record into the run. scopeOut / scopeNT are the per-scope sets.
func (r *Run) merge(x *Rec, scope string, lf leafInfo, scopeOut, scopeNT map[uint64]struct{}) {
	r.mu.Lock()
	defer r.mu.Unlock()
	r.evals++
	r.states += x.states
	r.trans += x.trans
	for k, v := range x.extra {
		r.counters[k] += v
	}
	if x.outcome != "" {
		h := h64(x.outcome)
		r.outcomes[h] = struct{}{}
		if scopeOut != nil {
			scopeOut[h] = struct{}{}
		}
	}
	if x.nontrivial != "" {
		h := h64(scope + "\x00" + x.nontrivial)
		if _, seen := r.nontriv[h]; !seen {
			r.nontriv[h] = struct{}{}
			if x.sample != nil && len(r.samples) < maxSamples && (len(r.samples) == 0 || lf.seq%7 == 3) {
				r.samples = append(r.samples, x.sample)
			}
		}
		if scopeNT != nil {
			scopeNT[h] = struct{}{}
		}
	} else if x.sample != nil && len(r.samples) == 0 {
		r.samples = append(r.samples, x.sample)
	}
	for _, f := range x.fails {
		key := f.Class + "\x00" + f.Known // a known-finding match and an unexplained failure of the same class stay apart
		v, ok := r.viol[key]
		if !ok || (v.Scope == scope && lf.seq < v.Seq) {
			var d any
			if x.describe != nil {
				d = x.describe()
			}
			cnt := int64(0)
			if ok {
				cnt = v.Count
			}
			r.viol[key] = &violation{Failure: f, Scope: scope, Seq: lf.seq, Vector: lf.vector, Labels: lf.labels, Describe: d, Count: cnt + 1}
		} else {
			v.Count++
		}
	}
}

type leafInfo struct {
	seq    int64
	vector []int
	labels []string
}

// Mode of enumeration.
type Mode struct {
	Bounded bool
	Bound   int
}

var Full = Mode{}

func Deviations(k int) Mode { return Mode{Bounded: true, Bound: k} }

// Explore enumerates the choice tree of gen (completely, or up to a deviation bound) and evaluates
// every leaf with eval on Workers goroutines. In replay mode only the recorded vector of the
// recorded scope is executed.
func Explore[C any](r *Run, scope string, mode Mode, gen func(*Ctx) C, eval func(C, *Rec)) *ScopeStat {
	if parseWorker() != nil {
		return nil // worker of an isolated exploration: only its own scope runs
	}
	if r.Replaying() {
		if r.replayScope != scope {
			return nil
		}
		cs, ok := Replay(gen, r.replayVector)
		if !ok {
			r.HarnessError("replay vector is excluded by the grammar of scope %s", scope)
			return nil
		}
		x := &Rec{run: r}
		eval(cs, x)
		r.mu.Lock()
		r.replayRan = true
		r.replayFails = append(r.replayFails, x.fails...)
		r.mu.Unlock()
		return nil
	}
	r.mu.Lock()
	if r.replayers == nil {
		r.replayers = map[string]func([]int) []Failure{}
	}
	r.replayers[scope] = func(vec []int) []Failure {
		cs, ok := Replay(gen, vec)
		if !ok {
			return nil
		}
		x := &Rec{run: r}
		func() {
			// the same guard as in the exploring workers: a panic of the code under test is a failure of the case, not of the run
			defer func() {
				if p := recover(); p != nil {
					x.Fail("harness-panic: "+firstLine(fmt.Sprint(p)), "", fmt.Sprintf("%v\n%s", p, debug.Stack()))
				}
			}()
			eval(cs, x)
		}()
		return x.fails
	}
	r.mu.Unlock()
	st := &ScopeStat{Name: scope, Mode: "full"}
	if mode.Bounded {
		st.Mode = "deviation-bounded"
		st.Bound = mode.Bound
	}
	t0 := time.Now()
	scopeOut, scopeNT := map[uint64]struct{}{}, map[uint64]struct{}{}
	ch := make(chan Leaf[C], 4*r.Workers)
	var wg sync.WaitGroup
	var panics atomic.Int64
	for g := 0; g < r.Workers; g++ {
		wg.Add(1)
		go func() {
			defer wg.Done()
			for lf := range ch {
				x := &Rec{run: r}
				func() {
					defer func() {
						if p := recover(); p != nil {
							panics.Add(1)
							x.Fail("harness-panic: "+firstLine(fmt.Sprint(p)), "", fmt.Sprintf("%v\n%s", p, debug.Stack()))
						}
					}()
					eval(lf.Case, x)
				}()
				r.merge(x, scope, leafInfo{seq: lf.Seq, vector: lf.Vector}, scopeOut, scopeNT)
			}
		}()
	}
	var n int64
	emit := func(lf Leaf[C]) bool {
		n++
		if n&0x3ff == 0 && r.Expired() {
			return false
		}
		ch <- lf
		return true
	}
	if mode.Bounded {
		st.Leaves, st.Skipped, st.Complete = EnumBounded(gen, mode.Bound, emit)
	} else {
		st.Leaves, st.Skipped, st.Complete = EnumFull(gen, emit)
	}
	close(ch)
	wg.Wait()
	st.Outcomes, st.Nontrivial = len(scopeOut), len(scopeNT)
	st.WallS = time.Since(t0).Seconds()
	r.mu.Lock()
	r.scopes = append(r.scopes, st)
	r.mu.Unlock()
	fmt.Fprintf(os.Stderr, "[%s] scope %-28s %-17s executions=%d excluded=%d complete=%v outcomes=%d nontrivial=%d %.1fs\n",
		r.ID, scope, st.Mode, st.Leaves, st.Skipped, st.Complete, st.Outcomes, st.Nontrivial, st.WallS)
	return st
}

// Direct lets a check that drives its own search (explicit-state BFS) feed records into the run.
func (r *Run) Direct(scope string, seq int64, x *Rec) {
	r.merge(x, scope, leafInfo{seq: seq}, nil, nil)
}

func (r *Run) NewRec() *Rec { return &Rec{run: r} }

func (r *Run) AddScope(st *ScopeStat) {
	r.mu.Lock()
	r.scopes = append(r.scopes, st)
	r.mu.Unlock()
	fmt.Fprintf(os.Stderr, "[%s] scope %-28s %-17s executions=%d complete=%v outcomes=%d nontrivial=%d %.1fs %s\n",
		r.ID, st.Name, st.Mode, st.Leaves, st.Complete, st.Outcomes, st.Nontrivial, st.WallS, st.Note)
}

// ReplayFailures: for custom replays
func (r *Run) ReplayReport(fails []Failure) {
	r.mu.Lock()
	r.replayRan = true
	r.replayFails = append(r.replayFails, fails...)
	r.mu.Unlock()
}

func firstLine(s string) string {
	if i := strings.IndexByte(s, '\n'); i >= 0 {
		s = s[:i]
	}
	if len(s) > 200 {
		s = s[:200]
	}
	return s
}

// ---------------- known findings ----------------

type KnownFinding struct {
	ID       string `json:"id"`
	Property string `json:"property"`
	Status   string `json:"status"` // "known" or "fixed"
	Commit   string `json:"commit,omitempty"`
	What     string `json:"what"`
	Match    any    `json:"match,omitempty"`
}

type knownFile struct {
	Findings []KnownFinding `json:"findings"`
}

func (r *Run) loadKnown() map[string]KnownFinding {
	res := map[string]KnownFinding{}
	b, err := os.ReadFile(filepath.Join(r.Root, "known_findings.json"))
	if err != nil {
		return res
	}
	var kf knownFile
	if err := json.Unmarshal(b, &kf); err != nil {
		r.HarnessError("known_findings.json: %v", err)
		return res
	}
	for _, f := range kf.Findings {
		res[f.ID] = f
	}
	return res
}

// ---------------- finishing: replay files, output lines, evidence ----------------

type replayFile struct {
	Property string          `json:"property"`
	Scope    string          `json:"scope"`
	Vector   []int           `json:"vector,omitempty"`
	Data     json.RawMessage `json:"data,omitempty"`
	Class    string          `json:"class"`
	Detail   string          `json:"detail"`
	Case     any             `json:"case,omitempty"`
	Count    int64           `json:"occurrences_in_run"`
	Tier     string          `json:"tier"`
	Repro    string          `json:"reproduced_on_rerun,omitempty"`
}

// Finish writes evidence and replay artefacts, prints the verdict lines and returns the exit code.
func (r *Run) Finish() int {
	if r.Replaying() {
		if !r.replayRan {
			fmt.Fprintf(Out, "replay: scope %q of %s was not executed (unknown scope)\n", r.replayScope, r.ID)
			return 2
		}
		if len(r.replayFails) == 0 {
			fmt.Fprintf(Out, "replay: property %s holds on this case\n", r.ID)
			return 0
		}
		for _, f := range r.replayFails {
			fmt.Fprintf(Out, "replay: property=%s class=%q known=%q\n%s\n", r.ID, f.Class, f.Known, f.Detail)
		}
		return 1
	}
	known := r.loadKnown()
	outRoot := r.Root
	if d := os.Getenv("VERIF_OUTDIR"); d != "" {
		outRoot = d // mutation-testing runs write their evidence and replays elsewhere
	}
	var classes []string
	for k := range r.viol {
		classes = append(classes, k)
	}
	sort.Slice(classes, func(i, j int) bool {
		a, b := r.viol[classes[i]], r.viol[classes[j]]
		if a.Scope != b.Scope {
			return a.Scope < b.Scope
		}
		if a.Seq != b.Seq {
			return a.Seq < b.Seq
		}
		return classes[i] < classes[j]
	})
	reproduced := map[string]int64{}
	nviol := 0
	os.MkdirAll(filepath.Join(outRoot, "replays"), 0o755)
	const maxReported = 25
	for _, k := range classes {
		v := r.viol[k]
		if v.Known != "" {
			if kf, ok := known[v.Known]; ok && kf.Status == "known" && kf.Property == r.ID {
				reproduced[v.Known] += v.Count
				continue
			}
		}
		nviol++
		if nviol > maxReported {
			continue
		}
		if rp, ok := r.replayers[v.Scope]; ok && v.Vector != nil {
			same := 0
			for i := 0; i < 5; i++ {
				for _, f := range rp(v.Vector) {
					if f.Class == v.Class {
						same++
						break
					}
				}
			}
			v.Repro = fmt.Sprintf("%d/5", same)
		}
		sum := sha1.Sum([]byte(r.ID + v.Scope + v.Class))
		path := filepath.Join(outRoot, "replays", fmt.Sprintf("%s-%s.json", r.ID, hex.EncodeToString(sum[:6])))
		rf := replayFile{Property: r.ID, Scope: v.Scope, Vector: v.Vector, Class: v.Class, Detail: v.Detail, Case: v.Describe, Count: v.Count, Tier: r.Tier, Repro: v.Repro}
		if raw, ok := v.Describe.(json.RawMessage); ok && v.Vector == nil {
			rf.Data = raw
		}
		b, _ := json.MarshalIndent(rf, "", " ")
		os.WriteFile(path, b, 0o644)
		fmt.Fprintf(Out, "VIOLATION property=%s replay=%s\n", r.ID, path)
		fmt.Fprintf(Out, "  class: %s\n  scope: %s  occurrences: %d  reproduced on re-run: %s\n  %s\n", v.Class, v.Scope, v.Count, v.Repro, indent(firstN(v.Detail, 1500)))
	}
	if nviol > maxReported {
		fmt.Fprintf(Out, "(%d further violation classes not written out)\n", nviol-maxReported)
	}
	var kids []string
	for id := range reproduced {
		kids = append(kids, id)
	}
	sort.Strings(kids)
	for _, id := range kids {
		fmt.Fprintf(Out, "KNOWN-FINDING: property=%s %s [%s, %d cases]\n", r.ID, known[id].What, id, reproduced[id])
	}
	var stale []string
	for id, kf := range known {
		if kf.Property == r.ID && kf.Status == "known" && reproduced[id] == 0 {
			stale = append(stale, id)
		}
	}
	sort.Strings(stale)

	exhaustive := !r.deadlineHit
	for _, s := range r.scopes {
		if !s.Complete {
			exhaustive = false
		}
	}
	cov := map[string]any{
		"evaluations":               r.evals,
		"distinct_nontrivial":       len(r.nontriv),
		"rule":                      r.Rule,
		"samples":                   r.samples,
		"distinct_outcomes":         len(r.outcomes),
		"exhaustive":                exhaustive,
		"deadline_hit":              r.deadlineHit,
		"scopes":                    r.scopes,
		"bounds":                    r.Bounds,
		"known_findings_reproduced": reproduced,
		"stale_known_findings":      stale,
		"violation_classes":         nviol,
		"counters":                  r.counters,
		"executions_on_real_code":   r.evals,
	}
	if r.Level == "model_checking" {
		st, tr := r.states, r.trans
		if st == 0 {
			st = r.evals
		}
		if tr == 0 {
			tr = r.evals
		}
		cov["states"] = st
		cov["transitions"] = tr
		if tr > r.evals {
			cov["evaluations"] = tr
			cov["executions_on_real_code"] = tr
		}
		if len(r.nontriv) < 2 {
			cov["distinct_nontrivial"] = st
		}
		cov["traces_validated_against_impl"] = tr
	}
	for k, v := range r.Extra {
		cov[k] = v
	}
	if len(r.samples) == 0 {
		cov["samples"] = []any{"(no sample recorded)"}
	}
	ev := map[string]any{
		"property_id": r.ID, "tier": r.Tier, "seed": r.Seed, "level": r.Level, "coverage": cov,
		"assumptions": r.Assume, "wall_s": time.Since(r.Start).Seconds(), "violations": nviol,
	}
	if len(r.harnessErr) > 0 {
		ev["harness_errors"] = r.harnessErr
	}
	os.MkdirAll(filepath.Join(outRoot, "evidence"), 0o755)
	b, _ := json.MarshalIndent(ev, "", " ")
	if err := os.WriteFile(filepath.Join(outRoot, "evidence", r.ID+".json"), b, 0o644); err != nil {
		fmt.Fprintln(os.Stderr, "cannot write evidence:", err)
		return 2
	}
	fmt.Fprintf(Out, "%s %s: executions=%d distinct_outcomes=%d distinct_nontrivial=%d states=%d transitions=%d exhaustive=%v violations=%d known_findings=%d wall=%.1fs\n",
		r.ID, r.Tier, r.evals, len(r.outcomes), len(r.nontriv), r.states, r.trans, exhaustive, nviol, len(reproduced), time.Since(r.Start).Seconds())
	if len(r.harnessErr) > 0 {
		for _, e := range r.harnessErr {
			fmt.Fprintln(Out, "HARNESS-ERROR:", e)
		}
		if nviol == 0 {
			return 2
		}
	}
	if nviol > 0 {
		return 1
	}
	return 0
}

func firstN(s string, n int) string {
	if len(s) > n {
		return s[:n] + " …"
	}
	return s
}

func indent(s string) string { return strings.ReplaceAll(s, "\n", "\n  ") }
