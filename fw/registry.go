package fw

import (
	"encoding/json"
	"fmt"
	"os"
	"path/filepath"
	"sort"
)

type CheckDef struct {
	ID    string
	Level string
	Run   func(r *Run)
}

var registry = map[string]CheckDef{}

func Register(id, level string, run func(r *Run)) { registry[id] = CheckDef{id, level, run} }

func IDs() []string {
	var ids []string
	for k := range registry {
		ids = append(ids, k)
	}
	sort.Strings(ids)
	return ids
}

// Main is the entry point of the vcheck binary: `vcheck <id> quick|thorough` or `vcheck replay <file>`.
// Out is the verdict stream (the process's real stdout). The code under test may print to os.Stdout (e.g. a warning
// written with fmt.Printf instead of the logger); such text must never glue itself to a VIOLATION / KNOWN-FINDING line or
// to the worker protocol, so os.Stdout is pointed at stderr for everything but the framework.
var Out = os.Stdout

func init() { os.Stdout = os.Stderr }

func Main(root string, args []string) int {
	if len(args) >= 2 && args[0] == "replay" {
		b, err := os.ReadFile(args[1])
		if err != nil {
			fmt.Fprintln(Out, "replay:", err)
			return 2
		}
		var rf replayFile
		if err := json.Unmarshal(b, &rf); err != nil {
			fmt.Fprintln(Out, "replay:", err)
			return 2
		}
		def, ok := registry[rf.Property]
		if !ok {
			fmt.Fprintln(Out, "replay: unknown property", rf.Property)
			return 2
		}
		r := NewRun(def.ID, rf.Tier, def.Level, root)
		r.replayScope, r.replayVector, r.ReplayData = rf.Scope, rf.Vector, rf.Data
		if r.replayVector == nil {
			r.replayVector = []int{}
		}
		enterScratch()
		def.Run(r)
		return r.Finish()
	}
	if len(args) < 2 {
		fmt.Fprintln(Out, "usage: vcheck <property> quick|thorough | vcheck replay <file>; properties:", IDs())
		return 2
	}
	def, ok := registry[args[0]]
	if !ok {
		fmt.Fprintln(Out, "unknown property", args[0])
		return 2
	}
	r := NewRun(def.ID, args[1], def.Level, root)
	enterScratch()
	def.Run(r)
	return r.Finish()
}

// Scratch is the per-process scratch directory (on /dev/shm), also the cwd of the process.
var Scratch string

func enterScratch() {
	base := "/dev/shm"
	if _, err := os.Stat(base); err != nil {
		base = os.TempDir()
	}
	Scratch = filepath.Join(base, fmt.Sprintf("verif.%d", os.Getpid()))
	os.MkdirAll(Scratch, 0o755)
	os.Chdir(Scratch)
}

func CleanupScratch() {
	if Scratch != "" {
		os.Chdir("/")
		os.RemoveAll(Scratch)
	}
}
