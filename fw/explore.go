// Package fw is the verification framework shared by all checks: a choice-tree explorer
// (full and deviation-bounded enumeration of executions), a parallel evaluator, violation /
// known-finding bookkeeping, replay artefacts and evidence files.
package fw

import (
	"fmt"
)

// Ctx hands out decisions to a harness body. Every source of variation of a case is obtained
// through Choose, so that a case is completely identified by its vector of choices and can be
// replayed without the explorer.
type Ctx struct {
	prefix  []int // choices to replay
	Choices []int // choices actually taken
	Arity   []int // arity at each choice point
	Labels  []string
	skipped bool
	strict  bool // replay mode: vector must be consumed exactly
}

type skipSignal struct{}

// Choose returns a value in [0,n). Alternative 0 is by convention the simplest / default one.
func (c *Ctx) Choose(n int, label string) int {
	if n <= 0 {
		panic(fmt.Sprintf("fw.Choose: arity %d at %q", n, label))
	}
	i := len(c.Choices)
	v := 0
	if i < len(c.prefix) {
		v = c.prefix[i]
		if v < 0 || v >= n {
			panic(fmt.Sprintf("fw.Choose: replayed choice %d out of range [0,%d) at point %d (%s): replay diverged", v, n, i, label))
		}
	}
	c.Choices = append(c.Choices, v)
	c.Arity = append(c.Arity, n)
	c.Labels = append(c.Labels, label)
	return v
}

// Bool is Choose(2).
func (c *Ctx) Bool(label string) bool { return c.Choose(2, label) == 1 }

// Skip abandons the current vector (a combination the grammar excludes). The subtree below the
// choices taken so far is still enumerated.
func (c *Ctx) Skip() { c.skipped = true; panic(skipSignal{}) }

// Pick chooses an element of a slice.
func Pick[T any](c *Ctx, xs []T, label string) T { return xs[c.Choose(len(xs), label)] }

// runBody executes gen under ctx, converting Skip into a flag.
func runBody[C any](c *Ctx, gen func(*Ctx) C) (res C, ok bool) {
	defer func() {
		if r := recover(); r != nil {
			if _, is := r.(skipSignal); is {
				ok = false
				return
			}
			panic(r)
		}
	}()
	res = gen(c)
	if c.strict && len(c.Choices) < len(c.prefix) {
		panic(fmt.Sprintf("fw: replay vector has %d entries but the body consumed only %d: replay diverged", len(c.prefix), len(c.Choices)))
	}
	return res, true
}

// next computes the successor vector of (choices, arity) in depth-first (odometer) order.
// It returns nil when the tree is exhausted.
func next(choices, arity []int) []int {
	for i := len(choices) - 1; i >= 0; i-- {
		if choices[i]+1 < arity[i] {
			v := append([]int{}, choices[:i]...)
			return append(v, choices[i]+1)
		}
	}
	return nil
}

// Leaf is one enumerated execution.
type Leaf[C any] struct {
	Seq    int64
	Vector []int
	Case   C
}

// EnumFull enumerates every leaf of the choice tree of gen, depth first, simplest first.
// emit returns false to stop early (deadline).
func EnumFull[C any](gen func(*Ctx) C, emit func(Leaf[C]) bool) (leaves, skipped int64, complete bool) {
	var prefix []int
	var seq int64
	for {
		c := &Ctx{prefix: prefix}
		cs, ok := runBody(c, gen)
		if ok {
			if !emit(Leaf[C]{Seq: seq, Vector: append([]int{}, c.Choices...), Case: cs}) {
				return leaves, skipped, false
			}
			seq++
			leaves++
		} else {
			skipped++
		}
		prefix = next(c.Choices, c.Arity)
		if prefix == nil {
			return leaves, skipped, true
		}
	}
}

// EnumBounded enumerates every leaf with at most bound non-zero choices ("deviations" from the
// default execution), fewest deviations first within each subtree (iterative context bounding
// transplanted to input/schedule choices). Executions always run to completion.
func EnumBounded[C any](gen func(*Ctx) C, bound int, emit func(Leaf[C]) bool) (leaves, skipped int64, complete bool) {
	var seq int64
	complete = true
	var rec func(prefix []int, devs int) bool
	rec = func(prefix []int, devs int) bool {
		c := &Ctx{prefix: prefix}
		cs, ok := runBody(c, gen)
		if ok {
			if !emit(Leaf[C]{Seq: seq, Vector: append([]int{}, c.Choices...), Case: cs}) {
				return false
			}
			seq++
			leaves++
		} else {
			skipped++
		}
		if devs >= bound {
			return true
		}
		for i := len(prefix); i < len(c.Choices); i++ {
			for alt := 1; alt < c.Arity[i]; alt++ {
				np := append(append([]int{}, c.Choices[:i]...), alt)
				if !rec(np, devs+1) {
					return false
				}
			}
		}
		return true
	}
	if !rec(nil, 0) {
		complete = false
	}
	return leaves, skipped, complete
}

// Replay runs gen on exactly the recorded vector; any divergence panics.
func Replay[C any](gen func(*Ctx) C, vector []int) (C, bool) {
	c := &Ctx{prefix: vector, strict: true}
	return runBody(c, gen)
}

// Stride keeps one leaf in n, decided by a hash of the choices taken so far (stateless, so that a
// recorded vector replays to the same decision). Call it after all choices of the case were made.
func (c *Ctx) Stride(n int) {
	if n <= 1 {
		return
	}
	h := uint64(1469598103934665603)
	for _, v := range c.Choices {
		h = (h ^ uint64(v+1)) * 1099511628211
	}
	if h%uint64(n) != 0 {
		c.Skip()
	}
}
