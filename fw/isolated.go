package fw

import (
	"bufio"
	"encoding/json"
	"fmt"
	"os"
	"os/exec"
	"runtime/debug"
	"strconv"
	"strings"
	"sync"
	"time"
)

// Process-isolated exploration: the leaves of a scope are evaluated in worker subprocesses
// (the same binary, re-invoked), so that a crash the Go runtime cannot recover from (fatal error,
// stack overflow, out of memory) or a hang is attributed to the case that caused it, reported as a
// failure of that case, and the exploration continues after it.

type wireRec struct {
	Seq        int64            `json:"seq"`
	Begin      bool             `json:"begin,omitempty"`
	Vector     []int            `json:"vector,omitempty"`
	Outcome    string           `json:"outcome,omitempty"`
	Nontrivial string           `json:"nontrivial,omitempty"`
	Fails      []Failure        `json:"fails,omitempty"`
	Describe   json.RawMessage  `json:"describe,omitempty"`
	Sample     json.RawMessage  `json:"sample,omitempty"`
	Extra      map[string]int64 `json:"extra,omitempty"`
	States     int64            `json:"states,omitempty"`
	Trans      int64            `json:"trans,omitempty"`
	Done       bool             `json:"done,omitempty"`
	Leaves     int64            `json:"leaves,omitempty"`
	Skipped    int64            `json:"skipped,omitempty"`
}

type workerSpec struct {
	scope    string
	i, n     int
	start    int64
	caseSecs int
}

func parseWorker() *workerSpec {
	s := os.Getenv("VERIF_WORKER")
	if s == "" {
		return nil
	}
	p := strings.Split(s, "|")
	if len(p) != 5 {
		return nil
	}
	w := &workerSpec{scope: p[0]}
	w.i, _ = strconv.Atoi(p[1])
	w.n, _ = strconv.Atoi(p[2])
	w.start, _ = strconv.ParseInt(p[3], 10, 64)
	w.caseSecs, _ = strconv.Atoi(p[4])
	return w
}

// IsWorker reports whether this process is a worker of an isolated exploration.
func (r *Run) IsWorker() bool { return parseWorker() != nil }

// CrashClass turns an abnormal worker end into the failure of the case it was running.
type CrashClass[C any] func(kind string, output string, cs C) (Failure, any)

// ExploreIsolated enumerates the choice tree of gen completely and evaluates every leaf in worker
// subprocesses. caseTimeout is a watchdog per case (expiry is reported as a failure of that case
// after the case was re-run; it is not an oracle on speed).
func ExploreIsolated[C any](r *Run, scope string, mode Mode, caseTimeout time.Duration, gen func(*Ctx) C, eval func(C, *Rec), onCrash CrashClass[C]) *ScopeStat {
	if ws := parseWorker(); ws != nil {
		if ws.scope == scope {
			runWorker(r, ws, mode, gen, eval)
			CleanupScratch()
			os.Exit(0)
		}
		return nil
	}
	if r.Replaying() {
		return Explore(r, scope, mode, gen, eval)
	}
	r.mu.Lock()
	if r.replayers == nil {
		r.replayers = map[string]func([]int) []Failure{}
	}
	r.mu.Unlock()
	st := &ScopeStat{Name: scope, Mode: "full (process-isolated workers)"}
	if mode.Bounded {
		st.Mode = "deviation-bounded (process-isolated workers)"
		st.Bound = mode.Bound
	}
	t0 := time.Now()
	scopeOut, scopeNT := map[uint64]struct{}{}, map[uint64]struct{}{}
	n := r.Workers
	var wg sync.WaitGroup
	var mu sync.Mutex
	complete := true
	var merged int64
	for i := 0; i < n; i++ {
		wg.Add(1)
		go func(i int) {
			defer wg.Done()
			start := int64(0)
			for attempt := 0; attempt < 1000; attempt++ {
				cmd := exec.Command(os.Args[0], os.Args[1:]...)
				cmd.Env = append(os.Environ(), fmt.Sprintf("VERIF_WORKER=%s|%d|%d|%d|%d", scope, i, n, start, int(caseTimeout.Seconds())))
				if !r.Deadline.IsZero() {
					cmd.Env = append(cmd.Env, fmt.Sprintf("VERIF_DEADLINE=%d", r.Deadline.Unix()))
				}
				out, _ := cmd.StdoutPipe()
				var errBuf strings.Builder
				cmd.Stderr = &tailWriter{b: &errBuf, max: 6000}
				if err := cmd.Start(); err != nil {
					r.HarnessError("cannot start worker: %v", err)
					return
				}
				sc := bufio.NewScanner(out)
				sc.Buffer(make([]byte, 1<<20), 64<<20)
				var cur *wireRec
				done := false
				for sc.Scan() {
					var wr wireRec
					if err := json.Unmarshal(sc.Bytes(), &wr); err != nil {
						continue // stray output of the code under test
					}
					switch {
					case wr.Done:
						done = true
						if i == 0 {
							mu.Lock()
							st.Leaves, st.Skipped = wr.Leaves, wr.Skipped
							mu.Unlock()
						}
					case wr.Begin:
						c := wr
						cur = &c
					default:
						cur = nil
						x := &Rec{run: r, outcome: wr.Outcome, nontrivial: wr.Nontrivial, fails: wr.Fails, extra: wr.Extra, states: wr.States, trans: wr.Trans}
						if wr.Describe != nil {
							d := wr.Describe
							x.describe = func() any { return d }
						}
						if wr.Sample != nil {
							x.sample = wr.Sample
						}
						r.merge(x, scope, leafInfo{seq: wr.Seq, vector: wr.Vector}, scopeOut, scopeNT)
						mu.Lock()
						merged++
						mu.Unlock()
					}
				}
				err := cmd.Wait()
				os.RemoveAll(fmt.Sprintf("/dev/shm/verif.%d", cmd.Process.Pid)) // scratch of a worker that died
				if done {
					return
				}
				if err == nil && cur == nil && !r.Deadline.IsZero() && time.Until(r.Deadline) < 5*time.Second {
					// clean exit without the completion record: the worker stopped at the (shared) deadline
					r.mu.Lock()
					r.deadlineHit = true
					r.mu.Unlock()
					mu.Lock()
					complete = false
					mu.Unlock()
					return
				}
				if r.Expired() {
					mu.Lock()
					complete = false
					mu.Unlock()
					return
				}
				// abnormal end: attribute to the case that was running
				if cur == nil {
					r.HarnessError("worker %d of scope %s ended abnormally outside a case: %v\n%s", i, scope, err, errBuf.String())
					return
				}
				kind := "process crash"
				if strings.Contains(errBuf.String(), "VERIF-WATCHDOG") {
					kind = "watchdog expiry"
				}
				cs, _ := Replay(gen, cur.Vector)
				f, d := onCrash(kind, errBuf.String(), cs)
				x := &Rec{run: r, fails: []Failure{f}}
				x.describe = func() any { return d }
				r.merge(x, scope, leafInfo{seq: cur.Seq, vector: cur.Vector}, scopeOut, scopeNT)
				start = cur.Seq + 1
			}
		}(i)
	}
	wg.Wait()
	if st.Leaves == 0 {
		st.Leaves = merged // no completion record (deadline): report the executions that were merged
	}
	st.Complete = complete
	st.Outcomes, st.Nontrivial = len(scopeOut), len(scopeNT)
	st.WallS = time.Since(t0).Seconds()
	r.mu.Lock()
	r.scopes = append(r.scopes, st)
	r.mu.Unlock()
	fmt.Fprintf(os.Stderr, "[%s] scope %-28s %-17s executions=%d excluded=%d complete=%v outcomes=%d nontrivial=%d %.1fs\n",
		r.ID, scope, st.Mode, st.Leaves, st.Skipped, st.Complete, st.Outcomes, st.Nontrivial, st.WallS)
	return st
}

// tailWriter keeps the beginning of the stream (a Go crash report starts with the reason and the
// faulting goroutine); the rest is dropped.
type tailWriter struct {
	b   *strings.Builder
	max int
}

func (t *tailWriter) Write(p []byte) (int, error) {
	if room := t.max - t.b.Len(); room > 0 {
		if len(p) < room {
			room = len(p)
		}
		t.b.Write(p[:room])
	}
	return len(p), nil
}

func runWorker[C any](r *Run, ws *workerSpec, mode Mode, gen func(*Ctx) C, eval func(C, *Rec)) {
	enc := json.NewEncoder(Out)
	var encMu sync.Mutex
	emit := func(lf Leaf[C]) bool {
		if lf.Seq%int64(ws.n) != int64(ws.i) || lf.Seq < ws.start {
			return !(lf.Seq&0xff == 0 && r.Expired())
		}
		x := &Rec{run: r}
		doneCh := make(chan struct{})
		var descr json.RawMessage
		go func() {
			defer close(doneCh)
			defer func() {
				if p := recover(); p != nil {
					x.Fail("harness-panic: "+firstLine(fmt.Sprint(p)), "", fmt.Sprintf("%v\n%s", p, debug.Stack()))
				}
			}()
			eval(lf.Case, x)
		}()
		// announce the case (with its description if the evaluator sets it early)
		encMu.Lock()
		enc.Encode(wireRec{Seq: lf.Seq, Begin: true, Vector: lf.Vector})
		encMu.Unlock()
		select {
		case <-doneCh:
		case <-time.After(time.Duration(ws.caseSecs) * time.Second):
			fmt.Fprintf(os.Stderr, "VERIF-WATCHDOG: case %d did not terminate within %d s\n", lf.Seq, ws.caseSecs)
			os.Exit(3)
		}
		wr := wireRec{Seq: lf.Seq, Vector: lf.Vector, Outcome: x.outcome, Nontrivial: x.nontrivial, Fails: x.fails, Extra: x.extra, States: x.states, Trans: x.trans}
		if len(x.fails) > 0 && x.describe != nil {
			descr, _ = json.Marshal(x.describe())
			wr.Describe = descr
		}
		if x.sample != nil && (lf.Seq%97 == 3 || lf.Seq < 2) {
			wr.Sample, _ = json.Marshal(x.sample)
		}
		encMu.Lock()
		enc.Encode(wr)
		encMu.Unlock()
		return !(lf.Seq&0xff == 0 && r.Expired())
	}
	var leaves, skipped int64
	var complete bool
	if mode.Bounded {
		leaves, skipped, complete = EnumBounded(gen, mode.Bound, emit)
	} else {
		leaves, skipped, complete = EnumFull(gen, emit)
	}
	if complete {
		enc.Encode(wireRec{Done: true, Leaves: leaves, Skipped: skipped})
	}
}
