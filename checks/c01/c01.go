// Package c01: `list` reports exactly what Kubernetes NetworkPolicy semantics allow.
// Bounded-exhaustive enumeration of NetworkPolicy-only worlds; each world is analysed by the real
// ConnlistFromResourceInfos and compared with the pointwise reference model wm.Allowed on the exact
// finite partition of the 3x65535 port space and of the 2^32 address space (DESIGN §2.5).
package c01

import (
	"fmt"
	"strings"
	"time"

	"verif/fw"
	"verif/wm"
)

func init() { fw.Register("C01", "exploration", Run) }

var ml, me = wm.ML, wm.ME

var PortAlpha = []wm.NPPort{
	{HasPort: true, Num: 80},
	{HasPort: true, Num: 80, End: 81},
	{HasPort: true, Num: 80, End: 65535},
	{HasPort: true, Num: 1, End: 80, Proto: "TCP"},
	{HasPort: true, Num: 81, End: 80},
	{Proto: "TCP"},
	{Proto: "UDP"},
	{Proto: "SCTP"},
	{HasPort: true, Num: 53, Proto: "UDP"},
	{HasPort: true, Name: "http"},
	{HasPort: true, Name: "http", Proto: "UDP"},
	{HasPort: true, Name: "dns", Proto: "UDP"},
	{HasPort: true, Name: "nosuch"},
	{HasPort: true, Num: 8080, Proto: "TCP"},
	{HasPort: true, Num: 65535, Proto: "SCTP"},
	{HasPort: true, Num: 1, Proto: "UDP", End: 65535},
}

var CPortAlpha = [][]wm.CPort{
	nil,
	{{Name: "http", Num: 80}},
	{{Name: "http", Num: 8080, Proto: "TCP"}, {Name: "dns", Num: 53, Proto: "UDP"}},
	{{Name: "http", Num: 80, Proto: "UDP"}},
	{{Name: "http", Num: 81}, {Name: "dns", Num: 53}},
}

var TypesAlpha = [][]string{nil, {"Ingress"}, {"Egress"}, {"Ingress", "Egress"}}

// PortSets: empty, singles, all unordered pairs, and the three protocol-only ports together.
func PortSets(alpha []wm.NPPort) [][]wm.NPPort {
	res := [][]wm.NPPort{nil}
	for i := range alpha {
		res = append(res, []wm.NPPort{alpha[i]})
	}
	for i := range alpha {
		for j := i + 1; j < len(alpha); j++ {
			res = append(res, []wm.NPPort{alpha[i], alpha[j]})
		}
	}
	res = append(res, []wm.NPPort{{Proto: "TCP"}, {Proto: "UDP"}, {Proto: "SCTP"}})
	res = append(res, []wm.NPPort{{HasPort: true, Num: 1, End: 65535, Proto: "TCP"}, {HasPort: true, Num: 1, End: 65535, Proto: "UDP"}, {HasPort: true, Num: 1, End: 65535, Proto: "SCTP"}})
	return res
}

var PodSels = []*wm.Sel{
	{}, ml("app", "a"), me("app", "In", "a", "b"), me("app", "NotIn", "a"), me("tier", "Exists"), me("tier", "DoesNotExist"),
	me("zzz", "NotIn", "q"), {ML: map[string]string{"app": "b"}, ME: []wm.Req{{Key: "tier", Op: "In", Vals: []string{"x"}}}},
	// the empty string is a label value like any other: it is not "key absent"
	ml("canary", ""), me("canary", "NotIn", ""),
	{ML: map[string]string{"app": "a"}, ME: []wm.Req{{Key: "canary", Op: "DoesNotExist"}}},
}
var NsSels = []*wm.Sel{
	{}, ml("team", "a"), ml(wm.NSNameKey, "ns2"), me("team", "NotIn", "a"), me("team", "Exists"),
	me(wm.NSNameKey, "In", "ns1", "default"),
	ml("team", ""),
	// the name of ns2 together with a label ns2 does not carry: selects no namespace
	{ML: map[string]string{wm.NSNameKey: "ns2", "team": "a"}},
}

var Cidrs = []wm.NPPeer{
	{CIDR: "0.0.0.0/0"}, {CIDR: "10.0.0.0/8"}, {CIDR: "10.0.0.0/9"}, {CIDR: "10.128.0.0/9"}, {CIDR: "10.1.0.0/16"},
	{CIDR: "255.255.255.255/32"}, {CIDR: "0.0.0.0/32"},
	{CIDR: "10.0.0.0/8", Except: []string{"10.1.0.0/16"}}, {CIDR: "10.0.0.0/8", Except: []string{"10.0.0.0/9"}},
	{CIDR: "10.0.0.0/8", Except: []string{"10.1.0.0/16", "10.1.2.0/24"}}, {CIDR: "10.0.0.0/8", Except: []string{"10.0.0.0/8"}},
	{CIDR: "0.0.0.0/0", Except: []string{"10.0.0.0/8", "255.255.255.255/32"}}, {CIDR: "10.1.0.0/16", Except: []string{"10.1.2.0/24"}},
	{CIDR: "10.1.2.3/8"},
	// IPv6 blocks and excepts (dual-stack policies): no IPv4 address is in them
	{CIDR: "fd00::/8"}, {CIDR: "::/0", Except: []string{"fd00::/8"}}, {CIDR: "10.0.0.0/8", Except: []string{"10.1.0.0/16", "fd00::/8"}},
	// exactly the one address the tool gives as node address to the pods it generates for workload objects: an external
	// address like any other in the tool's stated model
	{CIDR: "127.0.0.1/32"},
}

func SelPeers() []wm.NPPeer {
	var peers []wm.NPPeer
	for _, p := range PodSels {
		peers = append(peers, wm.NPPeer{Pod: p})
	}
	for _, n := range NsSels {
		peers = append(peers, wm.NPPeer{NSSel: n})
	}
	for _, p := range PodSels[1:4] {
		for _, n := range NsSels[:4] {
			peers = append(peers, wm.NPPeer{Pod: p, NSSel: n})
		}
	}
	return peers
}

func PeerSets() [][]wm.NPPeer {
	peers := SelPeers()
	res := [][]wm.NPPeer{nil}
	allp := append(append([]wm.NPPeer{}, peers...), Cidrs...)
	for i := range allp {
		res = append(res, []wm.NPPeer{allp[i]})
	}
	for i := range Cidrs {
		for j := i + 1; j < len(Cidrs); j++ {
			res = append(res, []wm.NPPeer{Cidrs[i], Cidrs[j]})
		}
	}
	for i := 0; i < len(peers); i += 3 {
		for j := 0; j < len(Cidrs); j += 4 {
			res = append(res, []wm.NPPeer{peers[i], Cidrs[j]})
		}
	}
	return res
}

var NsConfigs = [][]wm.NS{
	{{Name: "ns1", Labels: map[string]string{"team": "a"}, HasObj: true}, {Name: "ns2", Labels: map[string]string{"team": "b"}, HasObj: true}},
	{{Name: "ns1", Labels: map[string]string{"team": "a"}, HasObj: true}},
	{},
	// a Namespace manifest that spells the automatic name label itself, with another namespace's name
	{{Name: "ns1", Labels: map[string]string{"team": "a", wm.NSNameKey: "ns2"}, HasObj: true}, {Name: "ns2", Labels: map[string]string{"team": "b"}, HasObj: true}},
}

func ThreeWL(cp1, cp2, cp3 []wm.CPort) []wm.Workload {
	return []wm.Workload{
		{Kind: "Deployment", NS: "ns1", Name: "w1", Labels: map[string]string{"app": "a"}, Ports: cp1, Replicas: 1},
		{Kind: "Deployment", NS: "ns1", Name: "w2", Labels: map[string]string{"app": "b", "tier": "x"}, Ports: cp2, Replicas: 2},
		// the same name as the first workload, in another namespace and of another kind (anything keyed by name alone collides)
		{Kind: "StatefulSet", NS: "ns2", Name: "w1", Labels: map[string]string{"app": "a", "canary": ""}, Ports: cp3, Replicas: 1},
	}
}

// Eval analyses one world with the real code and compares with the reference. Exported for reuse
// by other checks (C05 asserts well-formedness on the same results).
func Eval(w *wm.World, x *fw.Rec) {
	tr, _ := wm.RunList(w.Infos(), false)
	ref := w.NormalizeNS()
	x.Outcome(tr.OutcomeKey())
	x.Describe(func() any { return map[string]any{"world": w.Brief(), "manifests": w.YAMLDocs()} })
	if tr.Err != nil {
		if wm.IsNamedPortOnIPErr(tr.Err) && ref.NamedPortOnIPPossible() {
			x.Count("documented_named_port_on_ip_error", 1)
			return
		}
		x.Fail("unexpected error: "+tr.Err.Error(), "", "list failed on a world the reference model can analyse: "+tr.Err.Error())
		return
	}
	for _, b := range tr.WF {
		// C05's invariant is a precondition of the exact cell argument
		x.Fail("result not well-formed (C05 invariant): "+wfClass(b), "", strings.Join(tr.WF, "\n"))
	}
	bad := ref.Compare(tr)
	if len(bad) > 0 {
		x.Fail(classOf(bad[0]), "", strings.Join(firstK(bad, 8), "\n"))
	}
	if nontrivial(ref, tr) {
		x.Nontrivial(tr.OutcomeKey())
		x.Sample(map[string]any{"world": w.Brief(), "report": firstK(sortedConns(tr), 6)})
	}
}

func wfClass(b string) string {
	if i := strings.Index(b, ": "); i >= 0 {
		return b[:i]
	}
	return b
}

func sortedConns(tr wm.ToolResult) []string {
	return strings.Split(tr.OutcomeKey(), ";")
}

func firstK(s []string, k int) []string {
	if len(s) > k {
		return s[:k]
	}
	return s
}

// classOf strips workload-independent noise so that one defect yields one class.
func classOf(s string) string {
	if i := strings.Index(s, " @"); i >= 0 {
		if j := strings.Index(s[i:], ":"); j >= 0 {
			s = s[:i] + s[i+j:]
		}
	}
	return "mismatch " + s
}

// nontrivial: some policy governs some workload and the relation is neither empty nor all-"All".
func nontrivial(w *wm.World, tr wm.ToolResult) bool {
	gov := len(w.ANPs) > 0 || w.BANP != nil
	for i := range w.NPs {
		for _, wl := range w.WLs {
			if wl.NS == w.NPs[i].NS && w.NPs[i].PodSel.Matches(wl.Labels) {
				gov = true
			}
		}
	}
	if !gov || len(tr.Conns) == 0 {
		return false
	}
	np := len(w.WLs)
	// fewer entries than the complete relation, or some entry not "All Connections"
	for _, v := range tr.Conns {
		if v != "All Connections" {
			return true
		}
	}
	return len(tr.Conns) < np*(np-1)+2*np*len(tr.IPs)
}

// Scope is a named choice tree of worlds.
type Scope struct {
	Name string
	Mode fw.Mode
	Gen  func(c *fw.Ctx) *wm.World
}

func Run(r *fw.Run) {
	r.Rule = "worlds are enumerated from the choice tree of each scope (all leaves); a case is non-trivial when some NetworkPolicy selects some workload and the reported relation is neither empty nor complete; distinct = distinct reported relations per scope"
	r.Assume = []string{
		"small-scope bound: <=3 workloads, <=3 namespaces, <=2 policies, <=2 rules per direction, <=3 ports / <=2 peers per rule, constants from the alphabets of DESIGN §2.3",
		"ports and addresses are decided exactly (interval-set equality on the partition induced by the constants of the world, common refinement of tool IP ranges and reference cells)",
		"third-party code (client-go, apimachinery, np-guard/models) is exercised, and trusted only for printing IP ranges",
	}
	if r.Quick() {
		r.SetBudget(300 * time.Second)
	} else {
		r.SetBudget(25 * time.Minute)
	}
	r.Bounds["port_alphabet"] = len(PortAlpha)
	r.Bounds["port_sets"] = len(PortSets(PortAlpha))
	r.Bounds["peer_sets"] = len(PeerSets())
	r.Bounds["multi_policy_alphabet"] = len(multiPolicyAlphabet())
	r.Bounds["rule_alphabet"] = len(ruleAlphabet())
	for _, sc := range Scopes(r.Quick()) {
		fw.Explore(r, sc.Name, sc.Mode, sc.Gen, Eval)
	}
}

// Scopes returns the world scopes of C01 (quick: the four full products; thorough: + interaction
// scope and deviation-bounded seeds). Other checks reuse them with their own oracles.
func Scopes(quick bool) []Scope {
	var scopes []Scope
	add := func(name string, mode fw.Mode, gen func(c *fw.Ctx) *wm.World) {
		scopes = append(scopes, Scope{name, mode, gen})
	}
	portSets := PortSets(PortAlpha)

	// S-ports
	add("S-ports", fw.Full, func(c *fw.Ctx) *wm.World {
		dir := fw.Pick(c, []string{"Ingress", "Egress"}, "direction")
		types := fw.Pick(c, TypesAlpha, "policyTypes")
		cports := fw.Pick(c, CPortAlpha, "containerPorts(dst)")
		pi := c.Choose(len(portSets), "rule ports")
		w := &wm.World{
			NSs: []wm.NS{{Name: "ns1", Labels: map[string]string{"team": "a"}, HasObj: true}},
			WLs: []wm.Workload{
				{Kind: "Deployment", NS: "ns1", Name: "w1", Labels: map[string]string{"app": "a"}, Ports: cports, Replicas: 1},
				{Kind: "Deployment", NS: "ns1", Name: "w2", Labels: map[string]string{"app": "b"}, Ports: CPortAlpha[1], Replicas: 2},
			},
		}
		np := wm.NP{NS: "ns1", Name: "p", PodSel: wm.Sel{ML: map[string]string{"app": "a"}}, Types: types}
		rule := wm.NPRule{Ports: portSets[pi]}
		if dir == "Egress" {
			// destination of the egress rule is w2; give it the varied container ports instead
			w.WLs[0].Ports, w.WLs[1].Ports = CPortAlpha[1], cports
			peerKind := c.Choose(2, "egress peers: pods-only | none(all incl. IPs)")
			if peerKind == 0 {
				rule.Peers = []wm.NPPeer{{Pod: &wm.Sel{}}}
			}
			np.Egress = []wm.NPRule{rule}
		} else {
			np.Ingress = []wm.NPRule{rule}
		}
		w.NPs = []wm.NP{np}
		return w
	})

	// S-sel + S-ip: one policy, one rule, selector / ipBlock peers
	peerSets := PeerSets()
	// (third entry) matchLabels and matchExpressions together: ns1/w1 has the label but fails the expression, ns2/w1 satisfies both
	polSels := []*wm.Sel{{}, ml("app", "a"), {ML: map[string]string{"app": "a"}, ME: []wm.Req{{Key: "canary", Op: "Exists"}}}, me("app", "NotIn", "a"), me("tier", "DoesNotExist"), me("zzz", "NotIn", "q"), me("app", "In", "a", "b"), me("tier", "Exists")}
	selPorts := [][]wm.NPPort{nil, {{HasPort: true, Num: 80}}}
	add("S-sel-ip", fw.Full, func(c *fw.Ctx) *wm.World {
		dir := fw.Pick(c, []string{"Ingress", "Egress"}, "direction")
		nsc := fw.Pick(c, NsConfigs, "namespace objects")
		nps := len(polSels)
		if quick {
			nps = 6
		}
		ps := polSels[c.Choose(nps, "policy podSelector")]
		polNS := fw.Pick(c, []string{"ns1", "ns2"}, "policy namespace")
		pset := peerSets[c.Choose(len(peerSets), "rule peers")]
		pt := fw.Pick(c, selPorts, "rule ports")
		noLabels := c.Choose(2, "w2 labels: app=b,tier=x | none") == 1
		w := &wm.World{NSs: nsc, WLs: ThreeWL(nil, nil, nil)}
		if noLabels {
			w.WLs[1].Labels = nil // a workload without any label: NotIn / DoesNotExist selectors still match it
		}
		np := wm.NP{NS: polNS, Name: "p", PodSel: *ps}
		rl := wm.NPRule{Peers: pset, Ports: pt}
		if dir == "Egress" {
			np.Egress = []wm.NPRule{rl}
		} else {
			np.Ingress = []wm.NPRule{rl}
		}
		w.NPs = []wm.NP{np}
		return w
	})

	// S-twins: two different workloads of one namespace with exactly the same pod labels (blue / green) that differ in what
	// their container-port names mean; anything computed once per (namespace, labels) is visible here
	add("S-twins", fw.Full, func(c *fw.Ctx) *wm.World {
		dir := fw.Pick(c, []string{"Ingress", "Egress"}, "direction")
		pa := c.Choose(len(CPortAlpha), "container ports of the blue twin")
		pb := c.Choose(len(CPortAlpha), "container ports of the green twin")
		pi := c.Choose(len(portSets), "rule ports")
		w := &wm.World{
			NSs: []wm.NS{{Name: "ns1", Labels: map[string]string{"team": "a"}, HasObj: true}},
			WLs: []wm.Workload{
				{Kind: "Deployment", NS: "ns1", Name: "w-blue", Labels: map[string]string{"app": "a"}, Ports: CPortAlpha[pa], Replicas: 1},
				{Kind: "Deployment", NS: "ns1", Name: "w-green", Labels: map[string]string{"app": "a"}, Ports: CPortAlpha[pb], Replicas: 2},
				{Kind: "Deployment", NS: "ns1", Name: "client", Labels: map[string]string{"app": "c"}, Replicas: 1},
			},
		}
		if dir == "Ingress" {
			w.NPs = []wm.NP{{NS: "ns1", Name: "p", PodSel: *ml("app", "a"), Types: []string{"Ingress"}, Ingress: []wm.NPRule{{Peers: []wm.NPPeer{{Pod: ml("app", "c")}}, Ports: portSets[pi]}}}}
		} else {
			w.NPs = []wm.NP{{NS: "ns1", Name: "p", PodSel: *ml("app", "c"), Types: []string{"Egress"}, Egress: []wm.NPRule{{Peers: []wm.NPPeer{{Pod: ml("app", "a")}}, Ports: portSets[pi]}}}}
		}
		return w
	})

	// S-complement: the source is governed on egress by two policies that only together list every port of every protocol
	// (neither is complete); the destination's ingress policy is any port set of the alphabet
	add("S-complement", fw.Full, func(c *fw.Ctx) *wm.World {
		split := fw.Pick(c, []int{100, 1, 65534}, "split point of the SCTP range")
		third := fw.Pick(c, []string{"SCTP", "TCP", "UDP"}, "protocol that is split over the two policies")
		pi := c.Choose(len(portSets), "ingress ports of the destination")
		order := c.Choose(2, "policy names: complete-part first | rest first")
		w := &wm.World{
			NSs: []wm.NS{{Name: "ns1", Labels: map[string]string{"team": "a"}, HasObj: true}},
			WLs: []wm.Workload{
				{Kind: "Deployment", NS: "ns1", Name: "w1", Labels: map[string]string{"app": "a"}, Replicas: 1},
				{Kind: "Deployment", NS: "ns1", Name: "w2", Labels: map[string]string{"app": "b"}, Ports: CPortAlpha[1], Replicas: 1},
			}}
		var most []wm.NPPort
		for _, p := range []string{"TCP", "UDP", "SCTP"} {
			if p == third {
				most = append(most, wm.NPPort{HasPort: true, Num: 1, End: split, Proto: p})
			} else {
				most = append(most, wm.NPPort{Proto: p})
			}
		}
		rest := []wm.NPPort{{HasPort: true, Num: split + 1, End: 65535, Proto: third}}
		na, nb := "a-most", "b-rest"
		if order == 1 {
			na, nb = "z-most", "b-rest"
		}
		w.NPs = []wm.NP{
			{NS: "ns1", Name: na, PodSel: *ml("app", "a"), Types: []string{"Egress"}, Egress: []wm.NPRule{{Peers: []wm.NPPeer{{Pod: &wm.Sel{}}}, Ports: most}}},
			{NS: "ns1", Name: nb, PodSel: *ml("app", "a"), Types: []string{"Egress"}, Egress: []wm.NPRule{{Peers: []wm.NPPeer{{Pod: &wm.Sel{}}}, Ports: rest}}},
			{NS: "ns1", Name: "dst", PodSel: *ml("app", "b"), Types: []string{"Ingress"}, Ingress: []wm.NPRule{{Ports: portSets[pi]}}},
		}
		return w
	})

	// S-same-cidr: one policy that uses the same cidr twice with different except lists (two rules of a direction, or the two directions)
	add("S-same-cidr", fw.Full, func(c *fw.Ctx) *wm.World {
		e1 := fw.Pick(c, [][]string{nil, {"10.1.0.0/16"}, {"10.0.0.0/9"}}, "except of the first use")
		e2 := fw.Pick(c, [][]string{{"10.2.0.0/16"}, {"10.1.0.0/16", "10.200.0.0/16"}, nil}, "except of the second use")
		where := c.Choose(3, "second use: second ingress rule | egress rule | second peer of the same rule")
		pt := fw.Pick(c, [][]wm.NPPort{nil, {{HasPort: true, Num: 80}}}, "ports of the second use")
		w := &wm.World{NSs: NsConfigs[1], WLs: ThreeWL(nil, nil, nil)[:2]}
		a := wm.NPPeer{CIDR: "10.0.0.0/8", Except: e1}
		b := wm.NPPeer{CIDR: "10.0.0.0/8", Except: e2}
		np := wm.NP{NS: "ns1", Name: "p", PodSel: *ml("app", "a"), Types: []string{"Ingress", "Egress"}}
		switch where {
		case 0:
			np.Ingress = []wm.NPRule{{Peers: []wm.NPPeer{a}, Ports: []wm.NPPort{{HasPort: true, Num: 8443}}}, {Peers: []wm.NPPeer{b}, Ports: pt}}
		case 1:
			np.Ingress = []wm.NPRule{{Peers: []wm.NPPeer{a}, Ports: []wm.NPPort{{HasPort: true, Num: 8443}}}}
			np.Egress = []wm.NPRule{{Peers: []wm.NPPeer{b}, Ports: pt}}
		default:
			np.Ingress = []wm.NPRule{{Peers: []wm.NPPeer{a, b}, Ports: pt}}
		}
		w.NPs = []wm.NP{np}
		return w
	})

	// S-multi: two policies from a reduced policy alphabet (union semantics, namespace by omission)
	pols := multiPolicyAlphabet()
	stride := 1
	if quick {
		stride = 4
	}
	add("S-multi", fw.Full, func(c *fw.Ctx) *wm.World {
		i := c.Choose(len(pols), "policy A")
		j := i + c.Choose(len(pols)-i, "policy B (>=A)")
		if stride > 1 && i != j && (i*31+j)%stride != 0 {
			c.Skip()
		}
		w := &wm.World{
			NSs: []wm.NS{{Name: "ns1", Labels: map[string]string{"team": "a"}, HasObj: true}, {Name: "ns2", Labels: map[string]string{"team": "b"}, HasObj: true}},
			WLs: []wm.Workload{
				{Kind: "Deployment", NS: "ns1", Name: "w1", Labels: map[string]string{"app": "a"}, Ports: []wm.CPort{{Name: "http", Num: 80}}, Replicas: 1},
				{Kind: "Deployment", NS: "ns2", Name: "w2", Labels: map[string]string{"app": "b"}, Ports: []wm.CPort{{Name: "http", Num: 85}}, Replicas: 2},
				{Kind: "Deployment", NS: "", Name: "w3", Labels: map[string]string{"app": "a"}, Replicas: 1},
			}}
		a, b := pols[i], pols[j]
		a.Name, b.Name = "pa", "pb"
		w.NPs = []wm.NP{a, b}
		return w
	})

	// S-rules: one policy with two rules per direction (rule union, per-rule ports x peers pairing)
	rl := ruleAlphabet()
	add("S-rules", fw.Full, func(c *fw.Ctx) *wm.World {
		dir := fw.Pick(c, []string{"Ingress", "Egress"}, "direction")
		types := fw.Pick(c, TypesAlpha, "policyTypes")
		n1 := c.Choose(len(rl)+1, "rule 1 (0 = none)")
		n2 := 0
		if n1 > 0 {
			n2 = c.Choose(len(rl)+1, "rule 2 (0 = none)")
		}
		o1 := c.Choose(len(rl)+1, "other-direction rule (0 = none)")
		if quick && o1 > 2 {
			c.Skip()
		}
		empties := c.Choose(2, "empty lists spelled: omitted | []") == 1
		w := &wm.World{NSs: NsConfigs[0], WLs: ThreeWL(CPortAlpha[1], CPortAlpha[2], CPortAlpha[3])}
		np := wm.NP{NS: "ns1", Name: "p", PodSel: *ml("app", "a"), Types: types, IngressEmptyList: empties, EgressEmptyList: empties}
		var rs, os []wm.NPRule
		if n1 > 0 {
			rs = append(rs, rl[n1-1])
		}
		if n2 > 0 {
			rs = append(rs, rl[n2-1])
		}
		if o1 > 0 {
			os = append(os, rl[o1-1])
		}
		if empties {
			for _, l := range [][]wm.NPRule{rs, os} {
				for i := range l {
					l[i].PeersEmptyList, l[i].PortsEmptyList = true, true
				}
			}
		}
		if dir == "Egress" {
			np.Egress, np.Ingress = rs, os
		} else {
			np.Ingress, np.Egress = rs, os
		}
		w.NPs = []wm.NP{np}
		return w
	})

	ipmPorts := [][]wm.NPPort{nil, {{HasPort: true, Num: 80}}, {{Proto: "UDP"}}}
	// S-ipmany: many ipBlocks (3..12) in one policy, spread over rules, in both halves of the space
	add("S-ipmany", fw.Full, func(c *fw.Ctx) *wm.World {
		n := fw.Pick(c, []int{3, 7, 12}, "number of ipBlocks")
		pat := c.Choose(4, "layout: spaced /16s | adjacent /24s | both halves | nested")
		perRule := fw.Pick(c, []int{1, 3, 12}, "ipBlocks per rule")
		pt := fw.Pick(c, ipmPorts, "ports")
		dir := c.Choose(3, "ingress | egress | both")
		var blocks []wm.NPPeer
		for i := 0; i < n; i++ {
			switch pat {
			case 0:
				blocks = append(blocks, wm.NPPeer{CIDR: fmt.Sprintf("10.%d.0.0/16", 3*i+1)})
			case 1:
				blocks = append(blocks, wm.NPPeer{CIDR: fmt.Sprintf("10.1.%d.0/24", i)})
			case 2:
				blocks = append(blocks, wm.NPPeer{CIDR: fmt.Sprintf("%d.0.0.0/8", 20*i+5)})
			default:
				blocks = append(blocks, wm.NPPeer{CIDR: fmt.Sprintf("200.0.0.0/%d", 8+2*i), Except: []string{fmt.Sprintf("200.0.0.0/%d", 9+2*i)}})
			}
		}
		var rules []wm.NPRule
		for i := 0; i < n; i += perRule {
			j := i + perRule
			if j > n {
				j = n
			}
			p := pt
			if (i/perRule)%2 == 1 {
				p = nil
			}
			rules = append(rules, wm.NPRule{Peers: blocks[i:j], Ports: p})
		}
		w := &wm.World{NSs: NsConfigs[1], WLs: ThreeWL(nil, nil, nil)[:2]}
		np := wm.NP{NS: "ns1", Name: "p", PodSel: *wm.ML("app", "a"), Types: []string{"Ingress", "Egress"}}
		if dir != 1 {
			np.Ingress = rules
		}
		if dir != 0 {
			np.Egress = rules
		}
		w.NPs = []wm.NP{np}
		return w
	})

	if !quick {
		scopes = append(scopes, thorough()...)
	}
	return scopes
}

func ruleAlphabet() []wm.NPRule {
	return []wm.NPRule{
		{},
		{Peers: []wm.NPPeer{{Pod: ml("app", "b")}}, Ports: []wm.NPPort{{HasPort: true, Num: 80, End: 90}}},
		{Peers: []wm.NPPeer{{NSSel: ml("team", "b")}}, Ports: []wm.NPPort{{HasPort: true, Name: "http"}}},
		{Peers: []wm.NPPeer{{NSSel: &wm.Sel{}, Pod: ml("app", "a")}}, Ports: []wm.NPPort{{Proto: "UDP"}}},
		{Peers: []wm.NPPeer{{CIDR: "10.0.0.0/8", Except: []string{"10.1.0.0/16"}}}, Ports: []wm.NPPort{{HasPort: true, Num: 85, End: 100}}},
		{Peers: []wm.NPPeer{{CIDR: "10.1.0.0/16"}, {Pod: me("tier", "Exists")}}},
		{Peers: []wm.NPPeer{{NSSel: me("team", "NotIn", "a")}}, Ports: []wm.NPPort{{Proto: "SCTP"}, {HasPort: true, Num: 53, Proto: "UDP"}}},
		{Ports: []wm.NPPort{{HasPort: true, Num: 1, End: 80}}},
	}
}

func multiPolicyAlphabet() []wm.NP {
	var pols []wm.NP
	sels := []*wm.Sel{{}, ml("app", "a"), me("app", "NotIn", "a")}
	peers := [][]wm.NPPeer{nil, {{Pod: ml("app", "b")}}, {{NSSel: ml("team", "b")}}, {{CIDR: "10.0.0.0/8", Except: []string{"10.1.0.0/16"}}}, {{NSSel: &wm.Sel{}, Pod: ml("app", "a")}, {CIDR: "10.1.0.0/16"}}}
	ports := [][]wm.NPPort{nil, {{HasPort: true, Num: 80, End: 90}}, {{HasPort: true, Name: "http"}, {Proto: "UDP"}}}
	for _, ns := range []string{"ns1", "ns2", ""} {
		for _, s := range sels {
			for _, types := range TypesAlpha {
				for pi, p := range peers {
					for qi, pt := range ports {
						if (pi == 0 || pi >= 3) && qi == 2 {
							continue // named port with IP-capable peers: the documented error, covered by S-ports
						}
						for _, nr := range []int{0, 1} {
							np := wm.NP{NS: ns, PodSel: *s, Types: types}
							if nr == 1 {
								np.Ingress = []wm.NPRule{{Peers: p, Ports: pt}}
								np.Egress = []wm.NPRule{{Peers: p, Ports: pt}}
							} else if pi > 0 || qi > 0 {
								continue
							}
							pols = append(pols, np)
						}
					}
				}
			}
		}
	}
	return pols
}

// thorough adds: the interaction scope (reduced alphabets of all dimensions at once) and
// deviation-bounded variation of rich seed worlds over the large alphabets.
func thorough() []Scope {
	var scopes []Scope
	add := func(name string, mode fw.Mode, gen func(c *fw.Ctx) *wm.World) {
		scopes = append(scopes, Scope{name, mode, gen})
	}
	selPeers := SelPeers()
	portSets := PortSets(PortAlpha)
	rp := []wm.NPPort{{HasPort: true, Num: 80}, {HasPort: true, Num: 80, End: 81}, {Proto: "UDP"}, {HasPort: true, Name: "http"}, {HasPort: true, Name: "dns", Proto: "UDP"}}
	rps := [][]wm.NPPort{nil, {rp[0]}, {rp[1]}, {rp[2]}, {rp[3]}, {rp[0], rp[2]}, {rp[3], rp[4]}}
	ripb := []wm.NPPeer{Cidrs[0], Cidrs[1], Cidrs[7], Cidrs[9], Cidrs[10], Cidrs[5]}
	rsel := []wm.NPPeer{{Pod: &wm.Sel{}}, {Pod: ml("app", "a")}, {NSSel: &wm.Sel{}}, {NSSel: ml("team", "b")}, {NSSel: ml(wm.NSNameKey, "ns2"), Pod: ml("app", "a")}, {Pod: me("app", "NotIn", "a")}, {NSSel: me("team", "Exists"), Pod: me("tier", "DoesNotExist")}, {NSSel: ml("team", "a"), Pod: &wm.Sel{}}}
	add("S-inter", fw.Full, func(c *fw.Ctx) *wm.World {
		dir := fw.Pick(c, []string{"Ingress", "Egress"}, "direction")
		types := fw.Pick(c, TypesAlpha, "policyTypes")
		nsc := fw.Pick(c, NsConfigs, "namespace objects")
		cp := fw.Pick(c, CPortAlpha[:3], "container ports")
		pt := fw.Pick(c, rps, "ports")
		var peers []wm.NPPeer
		si := c.Choose(len(rsel)+1, "selector peer (0=none)")
		ii := c.Choose(len(ripb)+1, "ipBlock peer (0=none)")
		if si > 0 {
			peers = append(peers, rsel[si-1])
		}
		if ii > 0 {
			peers = append(peers, ripb[ii-1])
		}
		w := &wm.World{NSs: nsc, WLs: ThreeWL(cp, cp, cp)}
		np := wm.NP{NS: "ns1", Name: "p", PodSel: *ml("app", "a"), Types: types}
		rl := wm.NPRule{Peers: peers, Ports: pt}
		if dir == "Egress" {
			np.Egress = []wm.NPRule{rl}
		} else {
			np.Ingress = []wm.NPRule{rl}
		}
		w.NPs = []wm.NP{np}
		return w
	})

	// seeds: two policies x two rules each; every position can deviate to any element of the large alphabets
	allPeers := append(append([]wm.NPPeer{}, selPeers...), Cidrs...)
	seedGen := func(seed int) func(c *fw.Ctx) *wm.World {
		return func(c *fw.Ctx) *wm.World {
			w := &wm.World{NSs: NsConfigs[c.Choose(len(NsConfigs), "namespace objects")],
				WLs: ThreeWL(CPortAlpha[c.Choose(len(CPortAlpha), "cports w1")], CPortAlpha[(1+c.Choose(len(CPortAlpha), "cports w2"))%len(CPortAlpha)], CPortAlpha[c.Choose(len(CPortAlpha), "cports w3")])}
			for p := 0; p < 2; p++ {
				np := wm.NP{NS: []string{"ns1", "ns2"}[(p+seed+c.Choose(2, "policy ns"))%2], Name: fmt.Sprintf("p%d", p),
					PodSel: *PodSels[c.Choose(len(PodSels), "podSelector")], Types: TypesAlpha[(seed+c.Choose(len(TypesAlpha), "policyTypes"))%len(TypesAlpha)]}
				mk := func(lbl string) wm.NPRule {
					var rl wm.NPRule
					np1 := c.Choose(len(allPeers)+1, lbl+" peer1")
					np2 := c.Choose(len(allPeers)+1, lbl+" peer2")
					if np1 > 0 {
						rl.Peers = append(rl.Peers, allPeers[np1-1])
					}
					if np2 > 0 {
						rl.Peers = append(rl.Peers, allPeers[np2-1])
					}
					rl.Ports = portSets[c.Choose(len(portSets), lbl+" ports")]
					return rl
				}
				if c.Choose(2, "has ingress rule") == (seed+p)%2 {
					np.Ingress = append(np.Ingress, mk("ingress"))
				}
				if c.Choose(2, "has egress rule") == (seed+p+1)%2 {
					np.Egress = append(np.Egress, mk("egress"))
				}
				w.NPs = append(w.NPs, np)
			}
			return w
		}
	}
	for s := 0; s < 4; s++ {
		add(fmt.Sprintf("S-seed%d-dev2", s), fw.Deviations(2), seedGen(s))
	}
	// S-three: three policies at once from a reduced alphabet (union over three policies, mixed namespaces and directions)
	var red []wm.NP
	for i, p := range multiPolicyAlphabet() {
		if i%9 == 0 {
			red = append(red, p)
		}
	}
	add("S-three", fw.Full, func(c *fw.Ctx) *wm.World {
		i := c.Choose(len(red), "policy A")
		j := c.Choose(len(red), "policy B")
		k := c.Choose(len(red), "policy C")
		if i > j || j > k {
			c.Skip()
		}
		w := &wm.World{
			NSs: []wm.NS{{Name: "ns1", Labels: map[string]string{"team": "a"}, HasObj: true}, {Name: "ns2", Labels: map[string]string{"team": "b"}, HasObj: true}},
			WLs: []wm.Workload{
				{Kind: "Deployment", NS: "ns1", Name: "w1", Labels: map[string]string{"app": "a"}, Ports: []wm.CPort{{Name: "http", Num: 80}}, Replicas: 1},
				{Kind: "Deployment", NS: "ns2", Name: "w2", Labels: map[string]string{"app": "b"}, Ports: []wm.CPort{{Name: "http", Num: 85}}, Replicas: 2},
				{Kind: "Deployment", NS: "", Name: "w3", Labels: map[string]string{"app": "a"}, Replicas: 1},
			}}
		a, b, d := red[i], red[j], red[k]
		a.Name, b.Name, d.Name = "pa", "pb", "pc"
		w.NPs = []wm.NP{a, b, d}
		return w
	})
	return scopes
}
