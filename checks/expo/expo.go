// Package expo: shared oracle of C06 (exposure is sound, base connectivity untouched) and C07
// (exposure is complete). Quantification over "all hypothetical pods" is decided exactly by
// enumerating the finite quotient of pods over the label / namespace / named-port vocabulary of the
// world's policies plus one fresh value per key (DESIGN §3 C06).
package expo

import (
	"fmt"
	"sort"
	"strings"

	metav1 "k8s.io/apimachinery/pkg/apis/meta/v1"

	"github.com/np-guard/netpol-analyzer/pkg/netpol/zzverif"

	"verif/fw"
	"verif/wm"
)

var ml, me = wm.ML, wm.ME

const nameKey = wm.NSNameKey

func fromK8s(ls metav1.LabelSelector) *wm.Sel {
	s := &wm.Sel{ML: map[string]string{}}
	for k, v := range ls.MatchLabels {
		s.ML[k] = v
	}
	for _, r := range ls.MatchExpressions {
		s.ME = append(s.ME, wm.Req{Key: r.Key, Op: string(r.Operator), Vals: r.Values})
	}
	return s
}

type entry struct {
	entire  bool
	ns, pod *wm.Sel
	num     map[string][]wm.Interval
	named   map[string][]string
	descr   string
}

// hypothetical pod class
type hyp struct {
	ns    string
	nsNew bool
	nsLab map[string]string
	lab   map[string]string
	ports []wm.CPort
}

func (h hyp) String() string {
	return fmt.Sprintf("namespace %s (new=%v) labels %v; pod labels %v; container ports %v", h.ns, h.nsNew, h.nsLab, h.lab, h.ports)
}

func vocab(w *wm.World) (podKV, nsKV map[string]map[string]bool, names, nsNames map[string]bool) {
	podKV, nsKV = map[string]map[string]bool{}, map[string]map[string]bool{}
	names, nsNames = map[string]bool{}, map[string]bool{}
	addSel := func(s *wm.Sel, kv map[string]map[string]bool) {
		if s == nil {
			return
		}
		for k, v := range s.ML {
			if kv[k] == nil {
				kv[k] = map[string]bool{}
			}
			kv[k][v] = true
		}
		for _, r := range s.ME {
			if kv[r.Key] == nil {
				kv[r.Key] = map[string]bool{}
			}
			for _, v := range r.Vals {
				kv[r.Key][v] = true
			}
		}
	}
	for _, np := range w.NPs {
		for _, rs := range [][]wm.NPRule{np.Ingress, np.Egress} {
			for _, r := range rs {
				for _, p := range r.Peers {
					addSel(p.Pod, podKV)
					addSel(p.NSSel, nsKV)
				}
				for _, pt := range r.Ports {
					if pt.Name != "" {
						names[pt.Name] = true
					}
				}
			}
		}
	}
	for v := range nsKV[nameKey] {
		nsNames[v] = true
	}
	delete(nsKV, nameKey)
	return
}

func assignments(kv map[string]map[string]bool) []map[string]string {
	keys := []string{}
	for k := range kv {
		keys = append(keys, k)
	}
	sort.Strings(keys)
	res := []map[string]string{{}}
	for _, k := range keys {
		vals := []string{"\x00absent", "fresh-" + k}
		for v := range kv[k] {
			vals = append(vals, v)
		}
		sort.Strings(vals)
		var next []map[string]string
		for _, m := range res {
			for _, v := range vals {
				c := map[string]string{}
				for a, b := range m {
					c[a] = b
				}
				if v != "\x00absent" {
					c[k] = v
				}
				next = append(next, c)
			}
		}
		res = next
	}
	return res
}

// Hyps enumerates every class of hypothetical pods of the world.
func Hyps(w *wm.World) []hyp {
	podKV, nsKV, names, nsNames := vocab(w)
	podAss := assignments(podKV)
	portAss := [][]wm.CPort{nil}
	nm := []string{}
	for n := range names {
		nm = append(nm, n)
	}
	sort.Strings(nm)
	for _, n := range nm {
		var next [][]wm.CPort
		for _, pa := range portAss {
			next = append(next, pa)
			for _, d := range []wm.CPort{{Name: n, Num: 80}, {Name: n, Num: 8080, Proto: "TCP"}, {Name: n, Num: 80, Proto: "UDP"}} {
				next = append(next, append(append([]wm.CPort{}, pa...), d))
			}
		}
		portAss = next
	}
	var res []hyp
	existing := map[string]bool{}
	for _, wl := range w.WLs {
		existing[wl.NS] = true
	}
	for _, n := range w.NSs {
		existing[n.Name] = true
	}
	type nsc struct {
		name  string
		isNew bool
		lab   map[string]string
	}
	var nss []nsc
	var exNames []string
	for n := range existing {
		exNames = append(exNames, n)
	}
	sort.Strings(exNames)
	for _, n := range exNames {
		nss = append(nss, nsc{n, false, w.NSLabels(n)})
	}
	newNames := []string{"zz-fresh-ns"}
	var nn []string
	for n := range nsNames {
		if !existing[n] {
			nn = append(nn, n)
		}
	}
	sort.Strings(nn)
	newNames = append(newNames, nn...)
	for _, n := range newNames {
		for _, a := range assignments(nsKV) {
			a[nameKey] = n
			nss = append(nss, nsc{n, true, a})
		}
	}
	for _, n := range nss {
		for _, pa := range podAss {
			for _, pt := range portAss {
				res = append(res, hyp{ns: n.name, nsNew: n.isNew, nsLab: n.lab, lab: pa, ports: pt})
			}
		}
	}
	return res
}

// extend returns the world with h added as its last workload.
func extend(w *wm.World, h hyp) *wm.World {
	c := *w
	c.WLs = append(append([]wm.Workload{}, w.WLs...), wm.Workload{Kind: "Pod", NS: h.ns, Name: "zz-hyp", Labels: h.lab, Ports: h.ports})
	if h.nsNew {
		c.NSs = append(append([]wm.NS{}, w.NSs...), wm.NS{Name: h.ns, Labels: h.nsLab, HasObj: true})
	}
	return &c
}

// isEq: selector consisting solely of label equalities (matchLabels), non-empty.
func isEq(s *wm.Sel) bool {
	if s == nil {
		return false
	}
	return len(s.ML) > 0 && len(s.ME) == 0
}

// exemptPeer: the documented omission - a rule peer whose selectors consist solely of label
// equalities that an existing workload (in a matching namespace) already satisfies.
func exemptPeer(w *wm.World, np *wm.NP, p wm.NPPeer) bool {
	if p.CIDR != "" || !isEq(p.Pod) {
		return false
	}
	nsSel := p.NSSel
	if nsSel == nil {
		nsSel = ml(nameKey, np.NS)
	}
	if !isEq(nsSel) {
		return false
	}
	for _, x := range w.WLs {
		if p.Pod.Matches(x.Labels) && nsSel.Matches(w.NSLabels(x.NS)) {
			return true
		}
	}
	return false
}

// refDir: direction-only verdict of workload i against the hypothetical pod hi; the second result
// ignores exempt peers.
func refDir(we, orig *wm.World, i, hi int, dir, proto string, port int) (bool, bool) {
	all, nonEx := false, false
	me := &we.WLs[i]
	dst := wm.Peer{WL: hi}
	if dir == "Ingress" {
		dst = wm.Peer{WL: i}
	}
	for k := range we.NPs {
		np := &we.NPs[k]
		if np.NS != me.NS || !np.Governs(dir) || !np.PodSel.Matches(me.Labels) {
			continue
		}
		rules := np.Ingress
		if dir == "Egress" {
			rules = np.Egress
		}
		for _, r := range rules {
			pm, pmNonEx := len(r.Peers) == 0, len(r.Peers) == 0
			for _, pr := range r.Peers {
				if we.NPPeerMatches(np, pr, wm.Peer{WL: hi}) {
					pm = true
					if !exemptPeer(orig, np, pr) {
						pmNonEx = true
					}
				}
			}
			if !pm {
				continue
			}
			ok := len(r.Ports) == 0
			for _, pt := range r.Ports {
				if we.NPPortMatches(pt, dst, proto, port) {
					ok = true
				}
			}
			if ok {
				all = true
				if pmNonEx {
					nonEx = true
				}
			}
		}
	}
	return all, nonEx
}

type connLike interface {
	IsAllConnections() bool
	IsEmpty() bool
}

func mkEntry(entire bool, ns, pod metav1.LabelSelector, conn connLike) entry {
	e := entry{entire: entire, ns: fromK8s(ns), pod: fromK8s(pod), num: map[string][]wm.Interval{}}
	e.named = zzverif.NamedPorts(conn)
	if conn.IsAllConnections() {
		for _, p := range []string{"TCP", "UDP", "SCTP"} {
			e.num[p] = []wm.Interval{{Lo: 1, Hi: 65535}}
		}
	} else {
		for p, ivs := range zzverif.Numeric(conn) {
			for _, iv := range ivs {
				e.num[p] = append(e.num[p], wm.Interval{Lo: iv[0], Hi: iv[1]})
			}
		}
	}
	if entire {
		e.descr = fmt.Sprintf("entire-cluster : %s named=%v", wm.ConnString(e.num), e.named)
	} else {
		e.descr = fmt.Sprintf("namespace%s pod%s : %s named=%v", e.ns, e.pod, wm.ConnString(e.num), e.named)
	}
	return e
}

func (e entry) claims(proto string, port int, h hyp) bool {
	ok, _ := e.claimsVia(proto, port, h)
	return ok
}

func (e entry) kind() string {
	if e.entire {
		return "entire-cluster entry"
	}
	return "selector entry"
}

func (e entry) claimsVia(proto string, port int, h hyp) (bool, string) {
	for _, iv := range e.num[proto] {
		if port >= iv.Lo && port <= iv.Hi {
			return true, "a numeric port"
		}
	}
	for _, n := range e.named[proto] {
		for _, cp := range h.ports {
			pp := cp.Proto
			if pp == "" {
				pp = "TCP"
			}
			if cp.Name == n && pp == proto && cp.Num == port {
				return true, "a named port"
			}
		}
	}
	return false, ""
}

// Result of the oracle on one world.
type Result struct {
	BaseDiffers  []string // (C06a) relation with the flag differs from the relation without
	Protected    []string // (C06b) protected flag disagrees with the reference
	Unsound      []string // (C06c) an entry claims a connection the policies do not allow for a satisfying pod
	Incomplete   []string // (C07) an allowed connection with a hypothetical pod that nothing reported covers
	Hyps         int
	Entries      int
	Outcome      string
	Skipped      string
	WF           []string
	PointsJudged int64
}

// BaseOnly evaluates only clause (a) of C06 on w: the connectivity reported with the flag equals the one reported without.
func BaseOnly(w *wm.World) Result {
	var res Result
	base, _ := wm.RunList(w.Infos(), false)
	exp, _ := wm.RunList(w.Infos(), true)
	if base.Err != nil || exp.Err != nil {
		documented := func(e error) bool {
			return e == nil || (wm.IsNamedPortOnIPErr(e) && w.NormalizeNS().NamedPortOnIPPossible())
		}
		res.Outcome = "ERR"
		if documented(base.Err) && documented(exp.Err) {
			res.Skipped = "documented named-port error"
			return res
		}
		if (base.Err == nil) != (exp.Err == nil) {
			res.BaseDiffers = append(res.BaseDiffers, fmt.Sprintf("only one of the two runs fails: without flag err=%v, with flag err=%v", base.Err, exp.Err))
		}
		res.Skipped = "analysis error"
		return res
	}
	res.WF = exp.WF
	res.Outcome = exp.OutcomeKey()
	if base.OutcomeKey() != exp.OutcomeKey() {
		res.BaseDiffers = append(res.BaseDiffers, fmt.Sprintf("without flag: %s\nwith flag:    %s", base.OutcomeKey(), exp.OutcomeKey()))
	}
	return res
}

// Check runs list with and without exposure analysis on w and evaluates both properties.
func Check(w *wm.World) Result {
	var res Result
	base, _ := wm.RunList(w.Infos(), false)
	exp, ca := wm.RunList(w.Infos(), true)
	if base.Err != nil || exp.Err != nil {
		documented := func(e error) bool {
			return e == nil || (wm.IsNamedPortOnIPErr(e) && w.NormalizeNS().NamedPortOnIPPossible())
		}
		if documented(base.Err) && documented(exp.Err) {
			// the documented named-port-on-IP error is permitted, not required: whether it is reached may depend on the path taken
			res.Skipped = "documented named-port error"
			res.Outcome = "ERR"
			return res
		}
		if (base.Err == nil) != (exp.Err == nil) {
			res.BaseDiffers = append(res.BaseDiffers, fmt.Sprintf("only one of the two runs fails: without flag err=%v, with flag err=%v", base.Err, exp.Err))
		}
		res.Skipped = "analysis error"
		res.Outcome = "ERR"
		return res
	}
	res.WF = exp.WF
	if base.OutcomeKey() != exp.OutcomeKey() {
		res.BaseDiffers = append(res.BaseDiffers, fmt.Sprintf("without flag: %s\nwith flag:    %s", base.OutcomeKey(), exp.OutcomeKey()))
	}
	ents := map[string][]entry{}
	prot := map[string]bool{}
	var oc []string
	for _, ep := range ca.ExposedPeers() {
		ps := ep.ExposedPeer().String()
		prot[ps+"|Ingress"] = ep.IsProtectedByIngressNetpols()
		prot[ps+"|Egress"] = ep.IsProtectedByEgressNetpols()
		for _, e := range ep.IngressExposure() {
			en := mkEntry(e.IsExposedToEntireCluster(), e.NamespaceLabels(), e.PodLabels(), e.PotentialConnectivity())
			ents[ps+"|Ingress"] = append(ents[ps+"|Ingress"], en)
			oc = append(oc, ps+" <= "+en.descr)
		}
		for _, e := range ep.EgressExposure() {
			en := mkEntry(e.IsExposedToEntireCluster(), e.NamespaceLabels(), e.PodLabels(), e.PotentialConnectivity())
			ents[ps+"|Egress"] = append(ents[ps+"|Egress"], en)
			oc = append(oc, ps+" => "+en.descr)
		}
		oc = append(oc, fmt.Sprintf("%s protected in/e=%v/%v", ps, ep.IsProtectedByIngressNetpols(), ep.IsProtectedByEgressNetpols()))
	}
	sort.Strings(oc)
	res.Outcome = strings.Join(oc, ";")
	res.Entries = len(oc)
	hs := Hyps(w)
	res.Hyps = len(hs)
	for i := range w.WLs {
		ps := w.WLs[i].PeerString()
		for _, dir := range []string{"Ingress", "Egress"} {
			governed := false
			for k := range w.NPs {
				np := &w.NPs[k]
				if np.NS == w.WLs[i].NS && np.PodSel.Matches(w.WLs[i].Labels) && np.Governs(dir) {
					governed = true
				}
			}
			p, inRes := prot[ps+"|"+dir]
			if !inRes {
				p = true // a workload absent from ExposedPeers() is protected and not exposed
			}
			if p != governed {
				res.Protected = append(res.Protected, fmt.Sprintf("%s %s: reported protected=%v (listed in ExposedPeers=%v) but a policy governs it there = %v", ps, dir, p, inRes, governed))
			}
			if !governed {
				continue
			}
			for _, h := range hs {
				we := extend(w, h)
				hi := len(we.WLs) - 1
				cuts := we.PortCuts()
				for _, proto := range []string{"TCP", "UDP", "SCTP"} {
					for _, port := range cuts {
						res.PointsJudged++
						refAll, refNonExempt := refDir(we, w, i, hi, dir, proto, port)
						covered := false
						for _, e := range ents[ps+"|"+dir] {
							if !e.entire && !(e.ns.Matches(h.nsLab) && e.pod.Matches(h.lab)) {
								continue
							}
							if ok, via := e.claimsVia(proto, port, h); ok {
								covered = true
								if !refAll {
									res.Unsound = append(res.Unsound, fmt.Sprintf("%s %s claims %s that the policies do not allow|%s %s: entry [%s] claims %s/%d, but the policies do not allow it with the hypothetical pod {%s}", dir, e.kind(), via, ps, dir, e.descr, proto, port, h))
								}
							}
						}
						if refNonExempt && !covered {
							res.Incomplete = append(res.Incomplete, fmt.Sprintf("%s: a connection allowed with a hypothetical pod is covered by no entry|%s %s: %s/%d is allowed with the hypothetical pod {%s} but no reported entry covers it (entries: %v)", dir, ps, dir, proto, port, h, descrs(ents[ps+"|"+dir])))
						}
					}
				}
			}
		}
	}
	return res
}

func descrs(es []entry) []string {
	var r []string
	for _, e := range es {
		r = append(r, e.descr)
	}
	return r
}

// ---------- world scopes ----------

// Peers is the exposure selector alphabet (collision-forcing shapes included).
func Peers() []wm.NPPeer {
	return []wm.NPPeer{
		{NSSel: &wm.Sel{}},                               // entire cluster
		{NSSel: &wm.Sel{}, Pod: &wm.Sel{}},               // entire cluster, other spelling
		{Pod: &wm.Sel{}},                                 // all pods of the policy namespace
		{Pod: ml("app", "x")},                            // new pod in the policy namespace
		{Pod: ml("app", "b")},                            // matched by the real w2: representative removed
		{NSSel: ml("team", "q")},                         // namespace by label
		{NSSel: ml(nameKey, "backend")},                  // new namespace by name
		{NSSel: ml(nameKey, "ns1"), Pod: ml("app", "x")}, // same as {Pod app=x} of a policy in ns1, explicit spelling
		{NSSel: &wm.Sel{}, Pod: ml("role", "mon")},       // any namespace, pod label
		{NSSel: ml("team", "q"), Pod: me("app", "In", "x", "y")},
		{Pod: me("app", "NotIn", "a")},
		{Pod: me("tier", "Exists")},
		{NSSel: me("team", "DoesNotExist")},
		{Pod: me("app", "In", "x")}, // equivalent to app=x
		{CIDR: "10.0.0.0/8"},
		{NSSel: ml("team", "q"), Pod: ml("app", "b")}, // pod selector satisfied by a real pod, namespace selector by no real namespace
		{Pod: me("app", "In", "y", "x")},              // In(y,x) vs In(x,y)
		{Pod: ml("a", "bc")},                          // collides with the next one when requirement strings are concatenated
		{Pod: &wm.Sel{ML: map[string]string{"a": "b"}, ME: []wm.Req{{Key: "c", Op: "Exists"}}}},
		{NSSel: ml("team", "a"), Pod: ml("app", "b")}, // both parts satisfied by real w2 in ns1 (team=a): exempt
		{Pod: ml("app", "x", "role", "mon")},          // requirements are a superset of those of {app=x}
		// matchLabels satisfied by the real w2 / ns1, the additional expression is not: the representative must stay
		{NSSel: &wm.Sel{ML: map[string]string{"team": "a"}, ME: []wm.Req{{Key: "zone", Op: "Exists"}}}, Pod: ml("app", "b")},
		{Pod: &wm.Sel{ML: map[string]string{"app": "b"}, ME: []wm.Req{{Key: "role", Op: "Exists"}}}},
		// the same requirements with two expressions on one key, listed in both orders
		{Pod: &wm.Sel{ME: []wm.Req{{Key: "tier", Op: "Exists"}, {Key: "tier", Op: "NotIn", Vals: []string{"db"}}}}},
		{Pod: &wm.Sel{ME: []wm.Req{{Key: "tier", Op: "NotIn", Vals: []string{"db"}}, {Key: "tier", Op: "Exists"}}}},
		// an empty-valued label is a requirement like any other: the real w2 (app=b, no such key) does not satisfy it
		{Pod: ml("app", "b", "canary", "")},
		// a namespace selector also used alone above, here with a pod selector made of negative expressions only
		{NSSel: ml("team", "q"), Pod: me("role", "DoesNotExist")},
		{NSSel: &wm.Sel{}, Pod: me("app", "NotIn", "a", "b")},
		// the same cidr as the other ipBlock peer, with an except list
		{CIDR: "10.0.0.0/8", Except: []string{"10.1.0.0/16"}},
		// the namespace is named and must carry another label as well (the name label is one requirement among others)
		{NSSel: &wm.Sel{ML: map[string]string{nameKey: "backend", "team": "q"}}, Pod: ml("app", "x")},
	}
}

var Ports = [][]wm.NPPort{nil, {{HasPort: true, Num: 80}}, {{HasPort: true, Name: "http"}}, {{HasPort: true, Name: "http"}, {HasPort: true, Num: 80}}, {{HasPort: true, Num: 53, Proto: "UDP"}, {HasPort: true, Name: "web"}},
	{{HasPort: true, Name: "web", Proto: "UDP"}}, // protocol differs from the one w1 declares for "web"
	{{Proto: "TCP"}}, // every port of a protocol (entry without port): contains, as a set of numbers, whatever a named port resolves to
	{{HasPort: true, Name: "http"}, {Proto: "TCP"}}}

func Rules() []wm.NPRule {
	var rules []wm.NPRule
	for _, p := range Peers() {
		for _, pt := range Ports {
			rules = append(rules, wm.NPRule{Peers: []wm.NPPeer{p}, Ports: pt})
		}
	}
	rules = append(rules, wm.NPRule{}, wm.NPRule{Ports: Ports[2]})
	// the peer list written out empty (from: [] / to: []): everything, like the omitted field
	rules = append(rules, wm.NPRule{PeersEmptyList: true}, wm.NPRule{PeersEmptyList: true, Ports: Ports[1]})
	return rules
}

func baseWorld() *wm.World {
	return &wm.World{
		NSs: []wm.NS{{Name: "ns1", Labels: map[string]string{"team": "a"}, HasObj: true}},
		WLs: []wm.Workload{
			{Kind: "Deployment", NS: "ns1", Name: "w1", Labels: map[string]string{"app": "a"}, Ports: []wm.CPort{{Name: "web", Num: 8000}}, Replicas: 1},
			{Kind: "Deployment", NS: "ns1", Name: "w2", Labels: map[string]string{"app": "b", "tier": "t"}, Ports: []wm.CPort{{Name: "http", Num: 80}}, Replicas: 1},
		}}
}

type Scope struct {
	Name string
	Gen  func(c *fw.Ctx) *wm.World
}

// Scopes returns the exposure world scopes.
func Scopes(quick bool) []Scope {
	rules := Rules()
	var reduced []wm.NPRule // entire-cluster spellings, own-namespace peers and one selector peer, with every port shape
	for _, p := range append(append([]wm.NPPeer{}, Peers()[:4]...), Peers()[8]) {
		for _, pt := range Ports {
			reduced = append(reduced, wm.NPRule{Peers: []wm.NPPeer{p}, Ports: pt})
		}
	}
	reduced = append(reduced, wm.NPRule{}, wm.NPRule{Ports: Ports[2]})
	reduced = append(reduced, wm.NPRule{PeersEmptyList: true, Ports: Ports[3]})
	return []Scope{
		{"shared-policy", func(c *fw.Ctx) *wm.World {
			// policy A selects w1 only, policy B selects every pod of ns1 (w1 and w2): w1 is governed by both, w2 by one
			r1 := c.Choose(len(reduced), "rule of policy A (app=a)")
			r2 := c.Choose(len(reduced), "rule of policy B (all pods)")
			swap := c.Choose(2, "policy names: A<B | B<A")
			w := baseWorld()
			na, nb := "pa", "pb"
			if swap == 1 {
				na, nb = "pz", "pb"
			}
			a := wm.NP{NS: "ns1", Name: na, PodSel: *ml("app", "a"), Types: []string{"Ingress", "Egress"}, Ingress: []wm.NPRule{reduced[r1]}, Egress: []wm.NPRule{reduced[r1]}}
			b := wm.NP{NS: "ns1", Name: nb, PodSel: wm.Sel{}, Types: []string{"Ingress", "Egress"}, Ingress: []wm.NPRule{reduced[r2]}, Egress: []wm.NPRule{reduced[r2]}}
			w.NPs = []wm.NP{a, b}
			// a twin of w1: another workload of the same namespace with exactly the same pod labels (blue / green), other ports;
			// it is a real workload that happens to be named like the tool's {ingress-controller} pseudo peer
			w.WLs = append(w.WLs, wm.Workload{Kind: "Deployment", NS: "ns1", Name: "ingress-controller", Labels: map[string]string{"app": "a"}, Ports: []wm.CPort{{Name: "web", Num: 8001}, {Name: "http", Num: 81}}, Replicas: 1})
			// a real bare Pod that happens to carry the name the tool gives its representative pods
			w.WLs = append(w.WLs, wm.Workload{Kind: "Pod", NS: "ns1", Name: "representative-pod", Labels: map[string]string{"app": "a"}, Ports: []wm.CPort{{Name: "web", Num: 8002}}})
			return w
		}},
		{"one-policy/two-rules", func(c *fw.Ctx) *wm.World {
			dir := fw.Pick(c, []string{"Ingress", "Egress"}, "direction")
			r1 := c.Choose(len(rules), "rule 1")
			r2 := c.Choose(len(rules)+1, "rule 2 (0=none)")
			w := baseWorld()
			np := wm.NP{NS: "ns1", Name: "p", PodSel: *ml("app", "a"), Types: []string{dir}}
			rs := []wm.NPRule{rules[r1]}
			if r2 > 0 {
				rs = append(rs, rules[r2-1])
			}
			if dir == "Ingress" {
				np.Ingress = rs
			} else {
				np.Egress = rs
			}
			w.NPs = []wm.NP{np}
			return w
		}},
		{"two-policies", func(c *fw.Ctx) *wm.World {
			// two policies (same / different selectors, policyTypes variants), each one rule; a third workload in ns2
			r1 := c.Choose(len(rules), "rule of policy A")
			r2 := c.Choose(len(rules), "rule of policy B")
			selB := fw.Pick(c, []*wm.Sel{ml("app", "a"), {}, ml("app", "b")}, "podSelector of B")
			typesA := fw.Pick(c, [][]string{{"Ingress"}, {"Egress"}, {"Ingress", "Egress"}, nil}, "policyTypes of A")
			nsB := fw.Pick(c, []string{"ns1", "ns2", "ghost"}, "namespace of B (ghost: no workload and no Namespace object there)")
			c.Stride(map[bool]int{true: 150, false: 6}[quick])
			w := baseWorld()
			w.NSs = append(w.NSs, wm.NS{Name: "ns2", Labels: map[string]string{"team": "b"}, HasObj: true})
			w.WLs = append(w.WLs, wm.Workload{Kind: "Deployment", NS: "ns2", Name: "w1", Labels: map[string]string{"app": "a"}, Ports: []wm.CPort{{Name: "http", Num: 8080}}, Replicas: 1})
			a := wm.NP{NS: "ns1", Name: "pa", PodSel: *ml("app", "a"), Types: typesA, Ingress: []wm.NPRule{rules[r1]}, Egress: []wm.NPRule{rules[r1]}}
			b := wm.NP{NS: nsB, Name: "pb", PodSel: *selB, Types: []string{"Ingress", "Egress"}, Ingress: []wm.NPRule{rules[r2]}, Egress: []wm.NPRule{rules[(r2+7)%len(rules)]}}
			w.NPs = []wm.NP{a, b}
			return w
		}},
	}
}

// DigitNamespaceScope is the shared-policy scope with its namespace renamed to "0-a": a workload peer of that namespace
// sorts before every ip-block peer ("0-a/..." < "0.0.0.0-..."), so nothing the analysis derives from the order in which
// peers are visited (e.g. the lazily set protected flags) can lean on "ip-blocks first". Run by C06 and C07 only.
func DigitNamespaceScope(quick bool) Scope {
	var shared Scope
	for _, sc := range Scopes(quick) {
		if sc.Name == "shared-policy" {
			shared = sc
		}
	}
	return Scope{"shared-policy/namespace-0-a", func(c *fw.Ctx) *wm.World {
		w := shared.Gen(c)
		c.Stride(map[bool]int{true: 5, false: 1}[quick])
		const n = "0-a"
		for i := range w.NSs {
			if w.NSs[i].Name == "ns1" {
				w.NSs[i].Name = n
			}
		}
		for i := range w.WLs {
			if w.WLs[i].NS == "ns1" {
				w.WLs[i].NS = n
			}
		}
		for i := range w.NPs {
			if w.NPs[i].NS == "ns1" {
				w.NPs[i].NS = n
			}
		}
		return w
	}}
}

// Describe renders a world for replay files.
func Describe(w *wm.World) func() any {
	return func() any { return map[string]any{"world": w.Brief(), "manifests": w.YAMLDocs()} }
}

func First(s []string, k int) []string {
	if len(s) > k {
		return s[:k]
	}
	return s
}

// ClassOf reduces a failure message to its class (drops the hypothetical pod).
func ClassOf(msg string) string {
	if i := strings.Index(msg, "|"); i >= 0 {
		return msg[:i]
	}
	return msg
}

// DetailOf strips the class prefix.
func DetailOf(msgs []string) string {
	var out []string
	for _, m := range msgs {
		if i := strings.Index(m, "|"); i >= 0 {
			m = m[i+1:]
		}
		out = append(out, m)
	}
	return strings.Join(out, "\n")
}
