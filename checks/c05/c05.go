// Package c05: every list result is a well-formed, canonical relation. The invariant
// (wm.WellFormed) is evaluated on every result of the world scopes of C01, C02 (and, through their
// own checks, C06, C10, C17); C05's own scopes force the suspicious constructions: the full set
// spelled in pieces, extremal / adjacent / self-cancelling ipBlocks.
package c05

import (
	"fmt"
	"sort"
	"strings"
	"time"

	"k8s.io/apimachinery/pkg/apis/meta/v1/unstructured"
	"k8s.io/cli-runtime/pkg/resource"

	"github.com/np-guard/netpol-analyzer/pkg/netpol/connlist"

	"verif/checks/c01"
	"verif/checks/c02"
	"verif/checks/c10"
	"verif/fw"
	"verif/wm"
)

func init() { fw.Register("C05", "exploration", Run) }

type Case struct {
	W        *wm.World
	Exposure bool
}

// Eval runs list (optionally with exposure) and asserts the invariant.
func Eval(cs Case, x *fw.Rec) {
	w := cs.W
	tr, _ := wm.RunList(w.Infos(), cs.Exposure)
	x.Outcome(tr.OutcomeKey())
	x.Describe(func() any {
		return map[string]any{"world": w.Brief(), "exposure": cs.Exposure, "manifests": w.YAMLDocs()}
	})
	if tr.Err != nil {
		x.Count("analysis_errors (not this property)", 1)
		return
	}
	if len(tr.RawPeers) == 0 {
		x.Count("results_without_workloads", 1)
	}
	for _, b := range tr.WF {
		x.Fail(Class(b), "", strings.Join(tr.WF, "\n"))
	}
	// non-trivial: the result has >= 2 IP ranges or a connection with >= 2 protocols or >= 2 ranges
	nt := len(tr.IPs) >= 2
	for _, v := range tr.Conns {
		if strings.Contains(v, ",") {
			nt = true
		}
	}
	if nt {
		x.Nontrivial(tr.OutcomeKey())
		x.Sample(map[string]any{"world": w.Brief(), "exposure": cs.Exposure, "report": first(strings.Split(tr.OutcomeKey(), ";"), 6)})
	}
}

func first(s []string, k int) []string {
	if len(s) > k {
		return s[:k]
	}
	return s
}

// Class keeps the kind of problem, drops the peers.
func Class(b string) string {
	if i := strings.Index(b, ": "); i >= 0 {
		return "not well-formed: " + b[:i]
	}
	for _, cut := range []string{" at ", " before ", " in "} {
		if i := strings.Index(b, cut); i >= 0 {
			return "not well-formed: " + b[:i]
		}
	}
	return "not well-formed: " + b
}

var frags = []wm.NPPort{
	{Proto: "TCP"}, {Proto: "UDP"}, {Proto: "SCTP"},
	{HasPort: true, Num: 1, End: 65535, Proto: "TCP"}, {HasPort: true, Num: 1, End: 65535, Proto: "UDP"}, {HasPort: true, Num: 1, End: 65535, Proto: "SCTP"},
	{HasPort: true, Num: 1, End: 80}, {HasPort: true, Num: 81, End: 65535}, {HasPort: true, Num: 80},
	{HasPort: true, Num: 1, End: 32767, Proto: "UDP"}, {HasPort: true, Num: 32768, End: 65535, Proto: "UDP"},
	{HasPort: true, Num: 82, End: 65535},
}

func Run(r *fw.Run) {
	r.Rule = "every list result of the world scopes (C01 NetworkPolicy scopes, C02 ANP/BANP scopes, own S-full / S-full-anp / S-ipx scopes; NetworkPolicy-only worlds also with exposure analysis on) is checked against the well-formedness invariant; non-trivial = result has >=2 IP ranges or a multi-protocol / multi-range connection; distinct = distinct reported relations"
	r.Assume = []string{"the invariant is evaluated on the API objects returned by ConnlistFromResourceInfos (Src/Dst strings, ProtocolsAndPorts, AllProtocolsAndPorts), the IP-coverage clause whenever the result contains a workload peer",
		"small-scope alphabets of DESIGN §2.3; the same invariant is also asserted inside C01/C02/C06/C10/C17 on all their results"}
	if r.Quick() {
		r.SetBudget(300 * time.Second)
	} else {
		r.SetBudget(25 * time.Minute)
	}
	base := func() *wm.World {
		return &wm.World{
			NSs: []wm.NS{{Name: "ns1", Labels: map[string]string{"team": "a"}, HasObj: true}},
			WLs: []wm.Workload{
				{Kind: "Deployment", NS: "ns1", Name: "w1", Labels: map[string]string{"app": "a"}, Replicas: 1},
				{Kind: "Deployment", NS: "ns1", Name: "w2", Labels: map[string]string{"app": "b"}, Replicas: 1},
			}}
	}
	// S-full: the full set spelled in fragments, in one rule / one rule each / one policy each
	fw.Explore(r, "S-full", fw.Full, func(c *fw.Ctx) Case {
		dir := fw.Pick(c, []string{"Ingress", "Egress"}, "direction")
		shape := c.Choose(3, "fragments in: one rule | a rule each | a policy each")
		var fs []wm.NPPort
		for k := 0; k < 3; k++ {
			i := c.Choose(len(frags), "fragment")
			if k > 0 && i == 0 {
				// 0 in a later slot means "no further fragment"
				continue
			}
			fs = append(fs, frags[i])
		}
		if c.Choose(2, "plus TCP 81-65535") == 1 {
			fs = append(fs, frags[7])
		}
		if c.Choose(2, "plus the named port http, listed first") == 1 {
			fs = append([]wm.NPPort{{HasPort: true, Name: "http"}}, fs...)
		}
		exp := c.Choose(2, "exposure") == 1
		w := base()
		mk := func(name string, rules []wm.NPRule) wm.NP {
			np := wm.NP{NS: "ns1", Name: name, PodSel: *wm.ML("app", "a"), Types: []string{dir}}
			if dir == "Egress" {
				np.Egress = rules
			} else {
				np.Ingress = rules
			}
			return np
		}
		switch shape {
		case 0:
			w.NPs = []wm.NP{mk("p", []wm.NPRule{{Ports: fs}})}
		case 1:
			var rs []wm.NPRule
			for _, f := range fs {
				rs = append(rs, wm.NPRule{Ports: []wm.NPPort{f}})
			}
			w.NPs = []wm.NP{mk("p", rs)}
		default:
			for i, f := range fs {
				w.NPs = append(w.NPs, mk("p"+string(rune('a'+i)), []wm.NPRule{{Ports: []wm.NPPort{f}}}))
			}
		}
		return Case{w, exp}
	}, Eval)

	// S-full-anp: ANP allow rules spelling the full set in PortRange fragments, over a deny-all BANP / NP
	afr := []wm.APort{
		{Kind: "range", Proto: "TCP", Num: 1, End: 65535}, {Kind: "range", Proto: "UDP", Num: 1, End: 65535}, {Kind: "range", Proto: "SCTP", Num: 1, End: 65535},
		{Kind: "range", Proto: "TCP", Num: 1, End: 80}, {Kind: "range", Proto: "TCP", Num: 81, End: 65535}, {Kind: "num", Proto: "TCP", Num: 80}, {Kind: "range", Proto: "TCP", Num: 82, End: 65535},
	}
	allNS := &wm.Sel{}
	fw.Explore(r, "S-full-anp", fw.Full, func(c *fw.Ctx) Case {
		shape := c.Choose(2, "fragments in: one rule | a rule each")
		var fs []wm.APort
		for k := 0; k < 4; k++ {
			i := c.Choose(len(afr)+1, "fragment (0=none)")
			if i > 0 {
				fs = append(fs, afr[i-1])
			}
		}
		under := c.Choose(3, "underneath: BANP deny-all | NP deny-all | ANP deny-all at lower precedence")
		w := base()
		a := wm.ANP{Name: "allow", Prio: 5, Subject: wm.APeer{Namespaces: allNS}}
		var rules []wm.ARule
		if len(fs) == 0 {
			rules = []wm.ARule{{Action: "Allow", Peers: []wm.APeer{{Namespaces: allNS}}}}
		} else if shape == 0 {
			p := fs
			rules = []wm.ARule{{Action: "Allow", Peers: []wm.APeer{{Namespaces: allNS}}, Ports: &p}}
		} else {
			for i := range fs {
				p := []wm.APort{fs[i]}
				rules = append(rules, wm.ARule{Action: "Allow", Peers: []wm.APeer{{Namespaces: allNS}}, Ports: &p})
			}
		}
		a.Ingress, a.Egress = rules, rules
		w.ANPs = []wm.ANP{a}
		deny := []wm.ARule{{Action: "Deny", Peers: []wm.APeer{{Namespaces: allNS}}}}
		switch under {
		case 0:
			w.BANP = &wm.ANP{Name: "default", Subject: wm.APeer{Namespaces: allNS}, Ingress: deny, Egress: deny}
		case 1:
			w.NPs = []wm.NP{{NS: "ns1", Name: "d", PodSel: wm.Sel{}, Types: []string{"Ingress", "Egress"}}}
		default:
			w.ANPs = append(w.ANPs, wm.ANP{Name: "deny", Prio: 9, Subject: wm.APeer{Namespaces: allNS}, Ingress: deny, Egress: deny})
		}
		return Case{w, false}
	}, Eval)

	// S-ipx: extremal / adjacent / self-cancelling ipBlocks, two rules over two policies
	ipx := []wm.NPPeer{
		{CIDR: "0.0.0.0/0"}, {CIDR: "0.0.0.0/1"}, {CIDR: "128.0.0.0/1"}, {CIDR: "0.0.0.0/32"}, {CIDR: "255.255.255.255/32"}, {CIDR: "0.0.0.1/32"}, {CIDR: "255.255.255.254/31"},
		{CIDR: "10.0.0.0/9"}, {CIDR: "10.128.0.0/9"}, {CIDR: "10.0.0.0/8", Except: []string{"10.0.0.0/8"}}, {CIDR: "0.0.0.0/0", Except: []string{"0.0.0.0/1", "128.0.0.0/1"}},
		{CIDR: "0.0.0.0/0", Except: []string{"0.0.0.0/32", "255.255.255.255/32"}}, {CIDR: "10.0.0.0/8", Except: []string{"10.0.0.0/9", "10.128.0.0/10"}}, {CIDR: "10.255.255.255/32"}, {CIDR: "11.0.0.0/32"},
	}
	pts := [][]wm.NPPort{nil, {{HasPort: true, Num: 80}}, {{Proto: "UDP"}}}
	fw.Explore(r, "S-ipx", fw.Full, func(c *fw.Ctx) Case {
		a := c.Choose(len(ipx), "ipBlock A")
		b := c.Choose(len(ipx)+1, "ipBlock B (0=none)")
		pa, pb := fw.Pick(c, pts, "ports A"), fw.Pick(c, pts, "ports B")
		shape := c.Choose(3, "A,B in: same rule | two rules | ingress vs egress")
		exp := c.Choose(2, "exposure") == 1
		if b == 0 && (shape != 0 || len(pb) != 0) {
			c.Skip()
		}
		w := base()
		np := wm.NP{NS: "ns1", Name: "p", PodSel: *wm.ML("app", "a"), Types: []string{"Ingress", "Egress"}}
		ra := wm.NPRule{Peers: []wm.NPPeer{ipx[a]}, Ports: pa}
		switch {
		case b == 0:
			np.Ingress, np.Egress = []wm.NPRule{ra}, []wm.NPRule{ra}
		case shape == 0:
			ra.Peers = append(ra.Peers, ipx[b-1])
			np.Ingress, np.Egress = []wm.NPRule{ra}, []wm.NPRule{ra}
		case shape == 1:
			rb := wm.NPRule{Peers: []wm.NPPeer{ipx[b-1]}, Ports: pb}
			np.Ingress, np.Egress = []wm.NPRule{ra, rb}, []wm.NPRule{rb, ra}
		default:
			rb := wm.NPRule{Peers: []wm.NPPeer{ipx[b-1]}, Ports: pb}
			np.Ingress, np.Egress = []wm.NPRule{ra}, []wm.NPRule{rb}
		}
		w.NPs = []wm.NP{np}
		return Case{w, exp}
	}, Eval)

	// S-duplicated-workload: one workload present both as its controller object and as live Pods that name it as owner
	// (a dump of a cluster); the ownerReference may spell the owner's apiVersion differently from the manifest
	type dupCase struct {
		infos []*resource.Info
		desc  string
		exp   bool
	}
	fw.Explore(r, "S-duplicated-workload", fw.Full, func(c *fw.Ctx) dupCase {
		apiv := fw.Pick(c, []string{"apps/v1", "extensions/v1beta1", "apps/v1beta2", ""}, "ownerReference apiVersion")
		npods := 1 + c.Choose(2, "live pods")
		order := c.Choose(3, "document order: controller first | pods first | controller between the pods")
		pol := c.Choose(3, "policy: none | ingress from app=b on 80 | deny all + egress to 10.0.0.0/8")
		exp := c.Choose(2, "exposure") == 1
		wl := wm.Workload{Kind: "ReplicaSet", NS: "ns1", Name: "w1", Labels: map[string]string{"app": "a"}, Ports: []wm.CPort{{Name: "http", Num: 80}}, Replicas: 2}
		ctrl := wm.Express(wl, "ReplicaSet", 2)
		pods := wm.Express(wl, "Pods", npods)
		for _, p := range pods {
			md := p.Object.(*unstructured.Unstructured).Object["metadata"].(map[string]interface{})
			for _, ref := range md["ownerReferences"].([]interface{}) {
				if apiv == "" {
					delete(ref.(map[string]interface{}), "apiVersion")
				} else {
					ref.(map[string]interface{})["apiVersion"] = apiv
				}
			}
		}
		var ws []*resource.Info
		switch order {
		case 0:
			ws = append(ctrl, pods...)
		case 1:
			ws = append(pods, ctrl...)
		default:
			ws = append(append(append([]*resource.Info{}, pods[:1]...), ctrl...), pods[1:]...)
		}
		other := &wm.World{NSs: []wm.NS{{Name: "ns1", Labels: map[string]string{"team": "a"}, HasObj: true}},
			WLs: []wm.Workload{{Kind: "Deployment", NS: "ns1", Name: "w2", Labels: map[string]string{"app": "b"}, Replicas: 1}}}
		switch pol {
		case 1:
			other.NPs = []wm.NP{{NS: "ns1", Name: "p", PodSel: *wm.ML("app", "a"), Types: []string{"Ingress"}, Ingress: []wm.NPRule{{Peers: []wm.NPPeer{{Pod: wm.ML("app", "b")}}, Ports: []wm.NPPort{{HasPort: true, Num: 80}}}}}}
		case 2:
			other.NPs = []wm.NP{{NS: "ns1", Name: "p", PodSel: wm.Sel{}, Types: []string{"Ingress", "Egress"}, Egress: []wm.NPRule{{Peers: []wm.NPPeer{{CIDR: "10.0.0.0/8"}}}}}}
		}
		return dupCase{append(other.Infos(), ws...), fmt.Sprintf("ReplicaSet ns1/w1 and %d of its pods (ownerReference apiVersion %q), order %d, policy %d", npods, apiv, order, pol), exp}
	}, func(cs dupCase, x *fw.Rec) {
		tr, _ := wm.RunList(cs.infos, cs.exp)
		x.Outcome(tr.OutcomeKey())
		x.Describe(func() any {
			return map[string]any{"case": cs.desc, "exposure": cs.exp, "manifests": wm.InfoYAML(cs.infos)}
		})
		if tr.Err != nil {
			x.Fail("a workload given as controller object and as its pods makes list fail", "", cs.desc+": "+tr.Err.Error())
			return
		}
		for _, b := range tr.WF {
			x.Fail(Class(b), "", cs.desc+"\n"+strings.Join(tr.WF, "\n"))
		}
		n := 0
		for _, p := range tr.RawPeers {
			if p.String() == "ns1/w1[ReplicaSet]" {
				n++
			}
		}
		if n != 1 {
			x.Fail("not well-formed: a workload is returned as more or less than one peer", "", fmt.Sprintf("%s: %d peers named ns1/w1[ReplicaSet]", cs.desc, n))
		}
		x.Nontrivial(cs.desc)
	})

	// pods of one owner that agree in labels but not in container ports (an operator's primary with a metrics port next to
	// its replicas) are still one workload: one peer, one entry per ordered pair
	fw.Explore(r, "S-owner-pods-with-different-ports", fw.Full, func(c *fw.Ctx) dupCase {
		ports := [][]wm.CPort{nil, {{Name: "http", Num: 80}}, {{Name: "http", Num: 80}, {Name: "metrics", Num: 9090}}, {{Name: "http", Num: 8080}}, {{Name: "dns", Num: 53, Proto: "UDP"}}}
		a := c.Choose(len(ports), "ports of the first pod")
		b := c.Choose(len(ports), "ports of the second pod")
		third := c.Choose(2, "a third pod like the first")
		order := c.Choose(2, "document order")
		pol := c.Choose(4, "policy: none | ingress on http | ingress on 80-9090 from app=b | deny all + egress to 10.0.0.0/8")
		exp := c.Choose(2, "exposure") == 1
		lbl := map[string]string{"app": "a"}
		pods := []*resource.Info{wm.InfoPodIPs("ns1", "w1-aaa", "w1", lbl, ports[a], wm.PodHostIP(0), wm.PodIP(0)), wm.InfoPodIPs("ns1", "w1-bbb", "w1", lbl, ports[b], wm.PodHostIP(1), wm.PodIP(1))}
		if third == 1 {
			pods = append(pods, wm.InfoPodIPs("ns1", "w1-ccc", "w1", lbl, ports[a], wm.PodHostIP(2), wm.PodIP(2)))
		}
		if order == 1 {
			for i, j := 0, len(pods)-1; i < j; i, j = i+1, j-1 {
				pods[i], pods[j] = pods[j], pods[i]
			}
		}
		other := &wm.World{NSs: []wm.NS{{Name: "ns1", Labels: map[string]string{"team": "a"}, HasObj: true}},
			WLs: []wm.Workload{{Kind: "Deployment", NS: "ns1", Name: "w2", Labels: map[string]string{"app": "b"}, Replicas: 1}}}
		switch pol {
		case 1:
			other.NPs = []wm.NP{{NS: "ns1", Name: "p", PodSel: *wm.ML("app", "a"), Types: []string{"Ingress"}, Ingress: []wm.NPRule{{Ports: []wm.NPPort{{HasPort: true, Name: "http"}}}}}}
		case 2:
			other.NPs = []wm.NP{{NS: "ns1", Name: "p", PodSel: *wm.ML("app", "a"), Types: []string{"Ingress"}, Ingress: []wm.NPRule{{Peers: []wm.NPPeer{{Pod: wm.ML("app", "b")}}, Ports: []wm.NPPort{{HasPort: true, Num: 80, End: 9090}}}}}}
		case 3:
			other.NPs = []wm.NP{{NS: "ns1", Name: "p", PodSel: wm.Sel{}, Types: []string{"Ingress", "Egress"}, Egress: []wm.NPRule{{Peers: []wm.NPPeer{{CIDR: "10.0.0.0/8"}}}}}}
		}
		return dupCase{append(other.Infos(), pods...), fmt.Sprintf("pods of ReplicaSet ns1/w1 with ports %v / %v (third pod %d), order %d, policy %d", ports[a], ports[b], third, order, pol), exp}
	}, func(cs dupCase, x *fw.Rec) {
		tr, _ := wm.RunList(cs.infos, cs.exp)
		x.Outcome(tr.OutcomeKey())
		x.Describe(func() any {
			return map[string]any{"case": cs.desc, "exposure": cs.exp, "manifests": wm.InfoYAML(cs.infos)}
		})
		if tr.Err != nil {
			x.Count("analysis_errors (not this property)", 1)
			return
		}
		for _, b := range tr.WF {
			x.Fail(Class(b), "", cs.desc+"\n"+strings.Join(tr.WF, "\n"))
		}
		n := 0
		for _, p := range tr.RawPeers {
			if p.String() == "ns1/w1[ReplicaSet]" {
				n++
			}
		}
		if n != 1 {
			x.Fail("not well-formed: a workload is returned as more or less than one peer", "", fmt.Sprintf("%s: %d peers named ns1/w1[ReplicaSet]", cs.desc, n))
		}
		x.Nontrivial(cs.desc)
	})

	// the focused report is a report too: a focus name shared by workloads of two namespaces (and of two kinds) must not
	// list the entries between the matching workloads twice
	type focusCase struct {
		w     *wm.World
		focus string
		exp   bool
	}
	fw.Explore(r, "S-focus-on-shared-names", fw.Full, func(c *fw.Ctx) focusCase {
		twins := c.Choose(3, "workloads named web: two namespaces | two namespaces + a StatefulSet of the same name given as a Pod | one")
		pol := c.Choose(4, "policy: none | web accepts only web | web accepts 80-81 from ns2 | deny all egress of ns1 except 10.0.0.0/8")
		focus := fw.Pick(c, []string{"web", "ns1/web", "ns2/web", "other", "ns1/other", "nosuch"}, "focus")
		exp := c.Choose(2, "exposure") == 1
		w := &wm.World{NSs: []wm.NS{{Name: "ns1", Labels: map[string]string{"team": "a"}, HasObj: true}, {Name: "ns2", Labels: map[string]string{"team": "b"}, HasObj: true}},
			WLs: []wm.Workload{{Kind: "Deployment", NS: "ns1", Name: "web", Labels: map[string]string{"app": "web"}, Replicas: 1, Ports: []wm.CPort{{Name: "http", Num: 80}}},
				{Kind: "Deployment", NS: "ns1", Name: "other", Labels: map[string]string{"app": "b"}, Replicas: 1}}}
		if twins <= 1 {
			w.WLs = append(w.WLs, wm.Workload{Kind: "Deployment", NS: "ns2", Name: "web", Labels: map[string]string{"app": "web"}, Replicas: 2, Ports: []wm.CPort{{Name: "http", Num: 8080}}})
		}
		if twins == 1 {
			w.WLs = append(w.WLs, wm.Workload{Kind: "Pod", NS: "ns2", Name: "web-0", Owner: "web", Labels: map[string]string{"app": "web", "set": "yes"}})
		}
		switch pol {
		case 1:
			for _, ns := range []string{"ns1", "ns2"} {
				w.NPs = append(w.NPs, wm.NP{NS: ns, Name: "p", PodSel: *wm.ML("app", "web"), Types: []string{"Ingress"}, Ingress: []wm.NPRule{{Peers: []wm.NPPeer{{Pod: wm.ML("app", "web"), NSSel: &wm.Sel{}}}}}})
			}
		case 2:
			w.NPs = append(w.NPs, wm.NP{NS: "ns1", Name: "p", PodSel: *wm.ML("app", "web"), Types: []string{"Ingress"}, Ingress: []wm.NPRule{{Peers: []wm.NPPeer{{NSSel: wm.ML("team", "b")}}, Ports: []wm.NPPort{{HasPort: true, Num: 80, End: 81}}}}})
		case 3:
			w.NPs = append(w.NPs, wm.NP{NS: "ns1", Name: "p", PodSel: wm.Sel{}, Types: []string{"Egress"}, Egress: []wm.NPRule{{Peers: []wm.NPPeer{{CIDR: "10.0.0.0/8"}}}}})
		}
		return focusCase{w, focus, exp}
	}, func(cs focusCase, x *fw.Rec) {
		opts := []connlist.ConnlistAnalyzerOption{connlist.WithLogger(wm.Quiet()), connlist.WithFocusWorkload(cs.focus)}
		if cs.exp {
			opts = append(opts, connlist.WithExposureAnalysis())
		}
		ca := connlist.NewConnlistAnalyzer(opts...)
		conns, peers, err := ca.ConnlistFromResourceInfos(cs.w.Infos())
		x.Describe(func() any {
			return map[string]any{"world": cs.w.Brief(), "focus": cs.focus, "exposure": cs.exp, "manifests": cs.w.YAMLDocs()}
		})
		if err != nil {
			x.Count("analysis_errors (not this property)", 1)
			return
		}
		var lines []string
		for _, cn := range conns {
			lines = append(lines, cn.Src().String()+"=>"+cn.Dst().String())
		}
		sort.Strings(lines)
		x.Outcome(cs.focus + "|" + strings.Join(lines, ";"))
		if len(conns) > 0 {
			x.Nontrivial(cs.focus + "|" + strings.Join(cs.w.Brief(), ";"))
		}
		wf := wm.WellFormed(conns, peers)
		for _, b := range wf {
			x.Fail(Class(b)+" (focused report)", "", fmt.Sprintf("focus %q\n%s", cs.focus, strings.Join(wf, "\n")))
		}
	})

	// the world scopes of C01 (with and without exposure) and C02
	for _, sc := range c01.Scopes(r.Quick()) {
		sc := sc
		if r.Quick() && sc.Name == "S-multi" {
			continue // covered with the same invariant inside C01's own run
		}
		fw.Explore(r, "C01/"+sc.Name, sc.Mode, func(c *fw.Ctx) Case {
			w := sc.Gen(c)
			return Case{w, c.Choose(2, "exposure") == 1}
		}, Eval)
	}
	for _, sc := range c02.Scopes(r.Quick()) {
		sc := sc
		stride := 1
		if r.Quick() && (sc.Name == "S-single" || sc.Name == "S-dir") {
			stride = 4 // the full products run with the same invariant inside C02's own check
		}
		fw.Explore(r, "C02/"+sc.Name, sc.Mode, func(c *fw.Ctx) Case {
			w := sc.Gen(c)
			c.Stride(stride)
			return Case{w, false}
		}, Eval)
	}
	// ingress / route worlds ({ingress-controller} lines, incl. backends that reach no container port)
	for name, gen := range map[string]func(*fw.Ctx) *wm.World{"ingress": c10.GenIngress, "route": c10.GenRoute, "ingress+route": c10.GenBoth, "same-name-two-namespaces": c10.GenTwoNamespaces} {
		gen := gen
		stride := map[bool]int{true: 16, false: 2}[r.Quick()]
		if name == "ingress+route" || name == "same-name-two-namespaces" {
			stride = 1
		}
		fw.Explore(r, "C10/"+name, fw.Full, func(c *fw.Ctx) Case {
			w := gen(c)
			c.Stride(stride)
			return Case{w, false}
		}, Eval)
	}
}
