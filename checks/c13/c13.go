// Package c13: bad or irrelevant documents are reported and never skew the result.
package c13

import (
	"fmt"
	"os"
	"path/filepath"
	"sort"
	"strings"
	"sync/atomic"
	"time"

	"github.com/np-guard/netpol-analyzer/pkg/netpol/connlist"
	"github.com/np-guard/netpol-analyzer/pkg/netpol/diff"

	"verif/fw"
	"verif/wm"
)

func init() { fw.Register("C13", "exploration", Run) }

const kfForeign = "C13-relevant-kind-of-a-foreign-api-group-is-analysed"
const kfItems = "C13-top-level-items-of-any-kind-are-read-as-a-list"

type junk struct {
	flat     string // for a document of an unused kind with a top-level `items` field: the documents the reader takes out of it
	native   string // for a document of a foreign API group whose kind the tool reads: the apiVersion the tool takes it for
	name     string
	ext      string // file extension when placed as its own file
	content  string
	document bool // a YAML document that may be added to an existing manifest file
	severe   bool // must be reported with a severe entry in Errors()
	marker   string
}

var junks = []junk{
	{name: "configmap", ext: ".yaml", document: true, content: "apiVersion: v1\nkind: ConfigMap\nmetadata: {name: cm, namespace: ns1}\ndata: {k: v}\n"},
	{name: "unknown-crd-kind", ext: ".yaml", document: true, content: "apiVersion: example.com/v1\nkind: Widget\nmetadata: {name: wd, namespace: ns1}\nspec: {size: 3}\n"},
	// a custom resource that keeps a copy of a Pod manifest in a top-level field called items
	{name: "custom-resource-with-items", ext: ".yaml", document: true,
		content: "apiVersion: backups.example.com/v1\nkind: Backup\nmetadata: {name: zzbackup, namespace: ns1}\nitems:\n- apiVersion: v1\n  kind: Pod\n  metadata: {name: zzghost, namespace: ns1, labels: {app: zzghost}}\n  spec: {containers: [{name: c, image: x}]}\n",
		flat:    "apiVersion: v1\nkind: Pod\nmetadata: {name: zzghost, namespace: ns1, labels: {app: zzghost}}\nspec: {containers: [{name: c, image: x}]}\n"},
	{name: "txt-non-manifest", ext: ".txt", content: "this is not a manifest\n  : : :\n"},
	{name: "yaml-syntax-error-file", ext: ".yaml", severe: true, marker: "zzbroken", content: "apiVersion: v1\nkind: Pod\nmetadata:\n  name: zzbroken\n   labels: [unclosed\n"},
	{name: "yaml-without-kind", ext: ".yaml", document: true, severe: true, marker: "zznokind", content: "apiVersion: v1\nmetadata: {name: zznokind}\n"},
	{name: "netpol-failing-schema", ext: ".yaml", document: true, severe: true, marker: "zzbadnp", content: "apiVersion: networking.k8s.io/v1\nkind: NetworkPolicy\nmetadata: {name: zzbadnp, namespace: ns1}\nspec:\n  podSelector: {}\n  ingress: not-a-list\n"},
	{name: "deployment-failing-schema", ext: ".yaml", document: true, severe: true, marker: "zzbaddep", content: "apiVersion: apps/v1\nkind: Deployment\nmetadata: {name: zzbaddep, namespace: ns1}\nspec:\n  replicas: many\n  template: {metadata: {labels: {app: zz}}, spec: {containers: [{name: c, image: x}]}}\n"},
	{name: "deployment-failing-schema-under-status-only", ext: ".yaml", document: true, severe: true, marker: "zzbadstatus", content: "apiVersion: apps/v1\nkind: Deployment\nmetadata: {name: zzbadstatus, namespace: ns1}\nspec:\n  replicas: 1\n  selector: {matchLabels: {app: zz}}\n  template: {metadata: {labels: {app: zz}}, spec: {containers: [{name: c, image: x}]}}\nstatus:\n  replicas: three\n"},
	{name: "namespace-failing-schema", ext: ".yaml", document: true, severe: true, marker: "zzbadns", content: "apiVersion: v1\nkind: Namespace\nmetadata:\n  name: zzbadns\nspec:\n  finalizers: just-one\n"},
	{name: "pod-failing-schema", ext: ".yaml", document: true, severe: true, marker: "zzbadpod", content: "apiVersion: v1\nkind: Pod\nmetadata: {name: zzbadpod, namespace: ns1}\nspec:\n  containers: just-one\n"},
	{name: "service-failing-schema", ext: ".yaml", document: true, severe: true, marker: "zzbadsvc", content: "apiVersion: v1\nkind: Service\nmetadata: {name: zzbadsvc, namespace: ns1}\nspec:\n  selector: {app: b}\n  ports: not-a-list\n"},
	{name: "ingress-failing-schema", ext: ".yaml", document: true, severe: true, marker: "zzbading", content: "apiVersion: networking.k8s.io/v1\nkind: Ingress\nmetadata: {name: zzbading, namespace: ns1}\nspec:\n  rules: some\n"},
	{name: "route-failing-schema", ext: ".yaml", document: true, severe: true, marker: "zzbadroute", content: "apiVersion: route.openshift.io/v1\nkind: Route\nmetadata: {name: zzbadroute, namespace: ns1}\nspec:\n  to: [a, b]\n"},
	{name: "anp-failing-schema", ext: ".yaml", document: true, severe: true, marker: "zzbadanp", content: "apiVersion: policy.networking.k8s.io/v1alpha1\nkind: AdminNetworkPolicy\nmetadata: {name: zzbadanp}\nspec:\n  priority: high\n  subject: {namespaces: {}}\n"},
	{name: "statefulset-failing-schema", ext: ".yaml", document: true, severe: true, marker: "zzbadss", content: "apiVersion: apps/v1\nkind: StatefulSet\nmetadata: {name: zzbadss, namespace: ns1}\nspec:\n  replicas: [1]\n  template: {metadata: {labels: {app: zz}}, spec: {containers: [{name: c, image: x}]}}\n"},
	// a kind the tool reads, in a foreign API group, named like the real Service of the Service/Ingress world (Knative creates exactly this pair)
	{name: "foreign-group-service-named-like-the-real-one", ext: ".yaml", document: true, content: "apiVersion: serving.knative.dev/v1\nkind: Service\nmetadata: {name: s, namespace: ns1}\nspec:\n  template: {spec: {containers: [{image: x}]}}\n"},
	// a Calico NetworkPolicy: another API group, another schema, a kind name the tool reads
	{name: "calico-networkpolicy", ext: ".yaml", document: true, native: "networking.k8s.io/v1", content: "apiVersion: projectcalico.org/v3\nkind: NetworkPolicy\nmetadata: {name: calico-allow, namespace: ns1}\nspec:\n  selector: app == 'zz'\n  types: [Ingress]\n  ingress:\n  - action: Allow\n    protocol: TCP\n"},
	// irrelevant kinds that carry no metadata.name at all
	{name: "kustomization-without-name", ext: ".yaml", document: true, content: "apiVersion: kustomize.config.k8s.io/v1beta1\nkind: Kustomization\nresources: [10-a.yaml, 20-b.yaml]\ncommonLabels: {app: zz}\n"},
	{name: "kind-cluster-config-without-name", ext: ".yaml", document: true, content: "kind: Cluster\napiVersion: kind.x-k8s.io/v1alpha4\nnodes: [{role: control-plane}, {role: worker}]\n"},
	{name: "empty-file", ext: ".yaml", content: ""},
	{name: "json-configmap", ext: ".json", content: "{\"apiVersion\": \"v1\", \"kind\": \"ConfigMap\", \"metadata\": {\"name\": \"cmj\", \"namespace\": \"ns1\"}, \"data\": {\"k\": \"v\"}}\n"},
}

// placements: own file first / last in sort order, sub-directory, extra document at start / middle / end of an existing file
var placements = []string{"own-file-first", "own-file-last", "sub-directory", "doc-at-start", "doc-in-middle", "doc-at-end"}

var all = &wm.Sel{}

func worlds() []*wm.World {
	nss := []wm.NS{{Name: "ns1", Labels: map[string]string{"team": "a"}, HasObj: true}}
	wls := []wm.Workload{
		{Kind: "Deployment", NS: "ns1", Name: "w1", Labels: map[string]string{"app": "a"}, Ports: []wm.CPort{{Name: "http", Num: 80}}, Replicas: 1},
		{Kind: "Deployment", NS: "ns1", Name: "w2", Labels: map[string]string{"app": "b"}, Ports: []wm.CPort{{Name: "http", Num: 8080}}, Replicas: 2},
		{Kind: "StatefulSet", NS: "ns2", Name: "w1", Labels: map[string]string{"app": "a"}, Replicas: 1},
	}
	np := wm.NP{NS: "ns1", Name: "p", PodSel: *wm.ML("app", "a"), Types: []string{"Ingress", "Egress"},
		Ingress: []wm.NPRule{{Peers: []wm.NPPeer{{Pod: wm.ML("app", "b")}, {CIDR: "10.0.0.0/8", Except: []string{"10.1.0.0/16"}}}, Ports: []wm.NPPort{{HasPort: true, Name: "http"}}}},
		Egress:  []wm.NPRule{{Peers: []wm.NPPeer{{NSSel: all}}, Ports: []wm.NPPort{{HasPort: true, Num: 53, Proto: "UDP"}, {HasPort: true, Num: 8080}}}}}
	p80 := []wm.APort{{Kind: "num", Proto: "TCP", Num: 80}}
	return []*wm.World{
		{NSs: nss, WLs: wls, NPs: []wm.NP{np}},
		{NSs: nss, WLs: wls},
		{NSs: nss, WLs: wls, NPs: []wm.NP{np}, ANPs: []wm.ANP{{Name: "a", Prio: 5, Subject: wm.APeer{Namespaces: all}, Ingress: []wm.ARule{{Action: "Deny", Peers: []wm.APeer{{Namespaces: wm.ML("team", "a")}}, Ports: &p80}}}}},
		{NSs: nss, WLs: wls, NPs: []wm.NP{np}, Svcs: []wm.Svc{{NS: "ns1", Name: "s", Sel: map[string]string{"app": "b"}, Ports: []wm.SvcPort{{Name: "p1", Port: 80, Target: wm.TName("http")}}}},
			Ings: []wm.Ing{{NS: "ns1", Name: "i", Default: &wm.Backend{Svc: "s", PortNum: 80}}}},
	}
}

type Case struct {
	nativeSpelling bool // write foreign-group documents with the native apiVersion of their kind (defect model of kfForeign)
	WI             int
	Junk           []int
	Place          []int
	Stop           bool
	Command        string // list | diff-dir1 | diff-dir2
	Desc           string
}

var dirSeq atomic.Int64

// writeDir lays the world out in three manifest files and injects the junk.
func writeDir(dir string, w *wm.World, cs Case) error {
	docs := w.YAMLDocs()
	files := map[string][]string{"10-a.yaml": nil, "20-b.yaml": nil, "30-c.yaml": nil}
	names := []string{"10-a.yaml", "20-b.yaml", "30-c.yaml"}
	for i, d := range docs {
		n := names[i*len(names)/len(docs)]
		files[n] = append(files[n], d)
	}
	extra := map[string]string{}
	for k, ji := range cs.Junk {
		j := junks[ji]
		if cs.nativeSpelling && j.native != "" {
			lines := strings.SplitN(j.content, "\n", 2)
			j.content = "apiVersion: " + j.native + "\n" + lines[1]
		}
		if cs.nativeSpelling && j.flat != "" {
			j.content = j.flat
		}
		switch placements[cs.Place[k]] {
		case "own-file-first":
			extra[fmt.Sprintf("00-junk%d%s", k, j.ext)] = j.content
		case "own-file-last":
			extra[fmt.Sprintf("99-junk%d%s", k, j.ext)] = j.content
		case "sub-directory":
			extra[fmt.Sprintf("sub/dir/junk%d%s", k, j.ext)] = j.content
		case "doc-at-start":
			files["10-a.yaml"] = append([]string{j.content}, files["10-a.yaml"]...)
		case "doc-in-middle":
			f := files["20-b.yaml"]
			m := len(f) / 2
			files["20-b.yaml"] = append(append(append([]string{}, f[:m]...), j.content), f[m:]...)
		case "doc-at-end":
			files["30-c.yaml"] = append(files["30-c.yaml"], j.content)
		}
	}
	for n, ds := range files {
		extra[n] = strings.Join(ds, "---\n")
	}
	for n, c := range extra {
		p := filepath.Join(dir, n)
		if err := os.MkdirAll(filepath.Dir(p), 0o755); err != nil {
			return err
		}
		if err := os.WriteFile(p, []byte(c), 0o644); err != nil {
			return err
		}
	}
	return nil
}

type errInfo struct {
	fatal, severe bool
	text          string
}

type outcome struct {
	err      error
	nilRes   bool
	relation string
	entries  int
	errs     []errInfo
	panicMsg string
}

func collect[E interface {
	IsFatal() bool
	IsSevere() bool
	Error() error
}](errs []E, o *outcome) {
	for _, e := range errs {
		func() {
			defer func() {
				if p := recover(); p != nil {
					o.panicMsg = fmt.Sprintf("calling Error() on an Errors() entry panics: %v", p)
				}
			}()
			t := "<nil error>"
			if e.Error() != nil {
				t = e.Error().Error()
			}
			o.errs = append(o.errs, errInfo{e.IsFatal(), e.IsSevere(), t})
		}()
	}
}

func runList(dir string, stop, exposure bool) outcome {
	opts := []connlist.ConnlistAnalyzerOption{connlist.WithLogger(wm.Quiet()), connlist.WithMuteErrsAndWarns()}
	if exposure {
		opts = append(opts, connlist.WithExposureAnalysis())
	}
	if stop {
		opts = append(opts, connlist.WithStopOnError())
	}
	ca := connlist.NewConnlistAnalyzer(opts...)
	conns, peers, err := ca.ConnlistFromDirPath(dir)
	o := outcome{err: err, nilRes: conns == nil && peers == nil}
	collect(ca.Errors(), &o)
	var ks []string
	for _, c := range conns {
		ks = append(ks, c.Src().String()+" => "+c.Dst().String()+" : "+connStr(c))
	}
	sort.Strings(ks)
	if exposure {
		// the exposure report is part of the computed result: all of it, as printed
		if out, err := ca.ConnectionsListToString(conns); err == nil {
			ks = append(ks, "--- report", out)
		}
	}
	o.relation, o.entries = strings.Join(ks, "\n"), len(conns)
	return o
}

func connStr(c connlist.Peer2PeerConnection) string {
	if c.AllProtocolsAndPorts() {
		return "All Connections"
	}
	m := map[string][]wm.Interval{}
	for p, rs := range c.ProtocolsAndPorts() {
		for _, r := range rs {
			m[string(p)] = append(m[string(p)], wm.Interval{Lo: int(r.Start()), Hi: int(r.End())})
		}
	}
	return wm.ConnString(m)
}

func runDiff(d1, d2 string, stop bool) outcome {
	opts := []diff.DiffAnalyzerOption{diff.WithLogger(wm.Quiet())}
	if stop {
		opts = append(opts, diff.WithStopOnError())
	}
	da := diff.NewDiffAnalyzer(opts...)
	d, err := da.ConnDiffFromDirPaths(d1, d2)
	o := outcome{err: err, nilRes: d == nil}
	collect(da.Errors(), &o)
	if d != nil && err == nil { // on an error d may be an interface holding a nil pointer
		var ks []string
		add := func(t string, l []diff.SrcDstDiff) {
			for _, e := range l {
				ks = append(ks, fmt.Sprintf("%s %s => %s %v/%v", t, e.Src().String(), e.Dst().String(), e.IsSrcNewOrRemoved(), e.IsDstNewOrRemoved()))
			}
		}
		add("removed", d.RemovedConnections())
		add("added", d.AddedConnections())
		add("changed", d.ChangedConnections())
		add("unchanged", d.UnchangedConnections())
		sort.Strings(ks)
		o.relation, o.entries = strings.Join(ks, "\n"), len(ks)
	}
	return o
}

var cleanDirs []string // per world: the junk-free directory
var otherDir string    // the fixed other side of diffs
var otherWorld *wm.World

func eval(cs Case, x *fw.Rec) {
	ws := worlds()
	dir := filepath.Join(fw.Scratch, fmt.Sprintf("c13-%d", dirSeq.Add(1)))
	defer os.RemoveAll(dir)
	if err := writeDir(dir, ws[cs.WI], cs); err != nil {
		x.Fail("harness: cannot write directory", "", err.Error())
		return
	}
	x.Describe(func() any {
		var js []string
		for k, ji := range cs.Junk {
			js = append(js, junks[ji].name+" @ "+placements[cs.Place[k]])
		}
		return map[string]any{"case": cs.Desc, "world": ws[cs.WI].Brief(), "junk": js}
	})
	var got, want outcome
	switch cs.Command {
	case "list":
		got, want = runList(dir, cs.Stop, false), runList(cleanDirs[cs.WI], false, false)
	case "list-exposure":
		got, want = runList(dir, cs.Stop, true), runList(cleanDirs[cs.WI], false, true)
	case "diff-dir1":
		got, want = runDiff(dir, otherDir, cs.Stop), runDiff(cleanDirs[cs.WI], otherDir, false)
	case "diff-both":
		// the same documents injected into the other side too (as files of their own, under that directory)
		odir := dir + "-other"
		defer os.RemoveAll(odir)
		ocs := cs
		ocs.Place = make([]int, len(cs.Place))
		for k := range ocs.Place {
			ocs.Place[k] = 1 // own-file-last
		}
		if err := writeDir(odir, otherWorld, ocs); err != nil {
			x.Fail("harness: cannot write directory", "", err.Error())
			return
		}
		got, want = runDiff(dir, odir, cs.Stop), runDiff(cleanDirs[cs.WI], otherDir, false)
		// each side's unreadable documents must be reported: the document is in both directories, so two entries name it
		for _, ji := range cs.Junk {
			if !junks[ji].severe || cs.Stop {
				continue
			}
			n := 0
			for _, e := range got.errs {
				if (e.severe || e.fatal) && (strings.Contains(e.text, junks[ji].marker) || strings.Contains(e.text, "junk")) {
					n++
				}
			}
			if n < 2 {
				x.Fail("diff: malformed documents in both directories: one side's are not reported", "", fmt.Sprintf("%s: %d severe entries name %s, expected one per directory\nErrors(): %v", cs.Desc, n, junks[ji].name, len(got.errs)))
			}
		}
	default:
		got, want = runDiff(otherDir, dir, cs.Stop), runDiff(otherDir, cleanDirs[cs.WI], false)
	}
	cls := func(s string) string { return cs.Command + ": " + s }
	if got.panicMsg != "" {
		x.Fail(cls("an Errors() entry cannot be printed"), "", cs.Desc+": "+got.panicMsg)
	}
	expectSevere := false
	for _, ji := range cs.Junk {
		if junks[ji].severe {
			expectSevere = true
		}
	}
	hasSevere, hasFatal := false, false
	for _, e := range got.errs {
		hasSevere = hasSevere || e.severe
		hasFatal = hasFatal || e.fatal
	}
	detail := func() string {
		var es []string
		for _, e := range got.errs {
			es = append(es, fmt.Sprintf("[fatal=%v severe=%v] %s", e.fatal, e.severe, firstLine(e.text)))
		}
		return fmt.Sprintf("%s\nreturned error: %v\nErrors(): %s\n--- relation\n%s\n--- relation of the same input without the injected documents\n%s", cs.Desc, got.err, strings.Join(es, " | "), got.relation, want.relation)
	}
	// each unreadable / malformed document appears in Errors() with severity severe
	for _, ji := range cs.Junk {
		j := junks[ji]
		if !j.severe {
			continue
		}
		found := false
		for _, e := range got.errs {
			if (e.severe || e.fatal) && (strings.Contains(e.text, j.marker) || strings.Contains(e.text, "junk")) {
				found = true
			}
		}
		if !found && !(cs.Stop && (hasSevere || hasFatal)) { // with stop-on-error the first severe error ends the processing
			x.Fail(cls("a malformed document is not reported as severe: "+j.name), "", detail())
		}
	}
	// "each ... document appears in Errors()": the same malformed document lying in two places is two documents
	if !cs.Stop && cs.Command != "diff-both" {
		copies := map[int]int{}
		for _, ji := range cs.Junk {
			copies[ji]++
		}
		for ji, n := range copies {
			j := junks[ji]
			if n < 2 || !j.severe || !j.document {
				continue
			}
			named := 0
			for _, e := range got.errs {
				if (e.severe || e.fatal) && strings.Contains(e.text, j.marker) {
					named++
				}
			}
			if named > 0 && named < n {
				x.Fail(cls("a malformed document present twice is reported once: "+j.name), "", detail())
			}
		}
	}
	if !expectSevere && hasSevere {
		x.Fail(cls("severe entry although every injected document is merely irrelevant"), "", detail())
	}
	if hasFatal && (got.err == nil || !got.nilRes) {
		x.Fail(cls("fatal entry without (error and nil result)"), "", detail())
	}
	switch {
	case cs.Stop && (hasSevere || hasFatal || expectSevere):
		if got.entries != 0 {
			x.Fail(cls("stop-on-error: a severe error yields a (partial) report"), "", detail())
		}
	default:
		if got.err != nil {
			x.Fail(cls("injected documents make the analysis fail"), "", detail())
		} else if got.relation != want.relation {
			// defect model of the recorded finding: documents are recognised by kind alone, i.e. the result is exactly the one
			// obtained when the foreign document is spelled with the native apiVersion of that kind
			known := ""
			if hasForeign(cs) {
				ndir := dir + "-native"
				ncs := cs
				ncs.nativeSpelling = true
				if err := writeDir(ndir, ws[cs.WI], ncs); err == nil {
					var nat outcome
					switch cs.Command {
					case "list":
						nat = runList(ndir, cs.Stop, false)
					case "list-exposure":
						nat = runList(ndir, cs.Stop, true)
					case "diff-dir1":
						nat = runDiff(ndir, otherDir, cs.Stop)
					default:
						nat = runDiff(otherDir, ndir, cs.Stop)
					}
					if nat.err == nil && nat.relation == got.relation {
						known = kfForeign
						if hasFlat(cs) {
							known = kfItems
						}
					}
				}
				os.RemoveAll(ndir)
			}
			x.Fail(cls("injected documents change the computed connections"), known, detail())
		}
	}
	oc := fmt.Sprintf("%s|err=%v|severe=%v|fatal=%v|entries=%d", cs.Command, got.err != nil, hasSevere, hasFatal, got.entries)
	x.Outcome(oc + fmt.Sprint(cs.Junk))
	if len(cs.Junk) > 0 {
		x.Nontrivial(cs.Desc)
		x.Sample(map[string]any{"case": cs.Desc, "outcome": oc})
	}
}

func hasForeign(cs Case) bool {
	for _, ji := range cs.Junk {
		if junks[ji].native != "" || junks[ji].flat != "" {
			return true
		}
	}
	return false
}

func hasFlat(cs Case) bool {
	for _, ji := range cs.Junk {
		if junks[ji].flat != "" {
			return true
		}
	}
	return false
}

func firstLine(s string) string {
	if i := strings.IndexByte(s, '\n'); i >= 0 {
		s = s[:i]
	}
	if len(s) > 160 {
		s = s[:160]
	}
	return s
}

func Run(r *fw.Run) {
	r.Rule = "4 valid worlds (NetworkPolicy; none; + ANP; + Service/Ingress) laid out in three manifest files x every subset of size <=2 (the empty one included) of a 19-element junk alphabet x every applicable placement (own file first / last in sort order, sub-directory; for document junk also as an extra document at the start / middle / end of a manifest file) x stopOnError {off,on} x {list, diff as dir1, diff as dir2, list --exposure (whole report compared)}, all on real files; non-trivial/distinct = each combination with at least one injected document"
	r.Assume = []string{"classification of the junk alphabet: severe = YAML syntax error file, YAML without kind, NetworkPolicy / Deployment failing schema conversion; irrelevant (no severe entry) = ConfigMap, unknown CRD kind, a Service of a foreign API group named like the real Service, Kustomization / kind Cluster config without metadata.name, .txt file, empty file, JSON ConfigMap",
		"syntactically broken input is placed as its own file (as the statement says); only document junk is added to existing manifest files"}
	if r.Quick() {
		r.SetBudget(300 * time.Second)
	} else {
		r.SetBudget(30 * time.Minute)
	}
	ws := worlds()
	for i, w := range ws {
		d := filepath.Join(fw.Scratch, fmt.Sprintf("c13-clean-%d", i))
		os.MkdirAll(d, 0o755)
		if err := writeDir(d, w, Case{}); err != nil {
			r.HarnessError("cannot write clean dir: %v", err)
			return
		}
		cleanDirs = append(cleanDirs, d)
	}
	otherDir = filepath.Join(fw.Scratch, "c13-other")
	os.MkdirAll(otherDir, 0o755)
	otherWorld = &wm.World{NSs: ws[0].NSs, WLs: ws[0].WLs[:2], NPs: []wm.NP{{NS: "ns1", Name: "deny", PodSel: wm.Sel{}, Types: []string{"Ingress"}}}}
	os.WriteFile(filepath.Join(otherDir, "all.yaml"), []byte(strings.Join(otherWorld.YAMLDocs(), "---\n")), 0o644)
	// the directories stay until the process ends (violations are re-executed when the run finishes); the scratch root is removed on exit
	fw.Explore(r, "junk-injection", fw.Full, func(c *fw.Ctx) Case {
		wi := c.Choose(len(ws), "world")
		cmd := fw.Pick(c, []string{"list", "diff-dir1", "diff-dir2", "list-exposure", "diff-both"}, "command")
		if cmd == "list-exposure" && (len(ws[wi].ANPs) > 0 || ws[wi].BANP != nil) {
			c.Skip() // exposure analysis refuses admin policies
		}
		stop := c.Choose(2, "stopOnError") == 1
		maxN := 3
		if !r.Quick() {
			maxN = 4 // thorough tier: up to three injected documents (strided)
		}
		n := c.Choose(maxN, "number of injected documents")
		cs := Case{WI: wi, Stop: stop, Command: cmd}
		prev := -1
		for k := 0; k < n; k++ {
			ji := c.Choose(len(junks), "junk")
			if (junks[ji].native != "" || junks[ji].flat != "") && cmd == "diff-both" {
				c.Skip() // the recorded finding is classified on the one-sided commands
			}
			if ji < prev || (ji == prev && (junks[ji].native != "" || junks[ji].flat != "")) {
				c.Skip() // unordered subsets; the same foreign-group document twice would be two policies of one name
			}
			prev = ji
			pl := c.Choose(len(placements), "placement")
			if strings.HasPrefix(placements[pl], "doc-") && !junks[ji].document {
				c.Skip()
			}
			cs.Junk = append(cs.Junk, ji)
			cs.Place = append(cs.Place, pl)
		}
		if r.Quick() && n == 2 {
			c.Stride(6)
		}
		if n == 3 {
			c.Stride(60)
		}
		var js []string
		for k, ji := range cs.Junk {
			js = append(js, junks[ji].name+"@"+placements[cs.Place[k]])
		}
		cs.Desc = fmt.Sprintf("world=%d command=%s stopOnError=%v junk=%v", wi, cmd, stop, js)
		return cs
	}, eval)
}
