// Package c03: eval (PolicyEngine.CheckIfAllowed, `k8snetpolicy eval`) agrees with list for every query.
package c03

import (
	"fmt"
	"os"
	"os/exec"
	"path/filepath"
	"sort"
	"strings"
	"sync/atomic"
	"time"

	"k8s.io/apimachinery/pkg/types"

	"github.com/np-guard/netpol-analyzer/pkg/cli"
	"github.com/np-guard/netpol-analyzer/pkg/manifests/parser"
	"github.com/np-guard/netpol-analyzer/pkg/netpol/eval"

	"verif/checks/c01"
	"verif/checks/c02"
	"verif/fw"
	"verif/wm"
)

func init() { fw.Register("C03", "exploration", Run) }

// engineLikeCLI mirrors pkg/cli/evaluate.go:updatePolicyEngineObjectsFromDirPath in memory
// (objects filtered to the two pods, inserted in document order). The mirror is kept bound to the
// real loader by the conformance scope (cli-loader), which runs the real function through the
// in-package hook and demands identical answers.
func engineLikeCLI(w *wm.World, names []types.NamespacedName) (*eval.PolicyEngine, error) {
	objs, _ := parser.ResourceInfoListToK8sObjectsList(w.Infos(), wm.Quiet(), true)
	objs = parser.FilterObjectsList(objs, names)
	pe := eval.NewPolicyEngine()
	pe.VerifCacheDebug(false)
	for i := range objs {
		o := objs[i]
		var err error
		switch o.Kind {
		case parser.Pod:
			err = pe.InsertObject(o.Pod)
		case parser.Namespace:
			err = pe.InsertObject(o.Namespace)
		case parser.NetworkPolicy:
			err = pe.InsertObject(o.NetworkPolicy)
		case parser.AdminNetworkPolicy:
			err = pe.InsertObject(o.AdminNetworkPolicy)
		case parser.BaselineAdminNetworkPolicy:
			err = pe.InsertObject(o.BaselineAdminNetworkPolicy)
		}
		if err != nil {
			return nil, err
		}
	}
	return pe, nil
}

func nn(s string) []types.NamespacedName {
	if !strings.Contains(s, "/") {
		return nil
	}
	p := strings.SplitN(s, "/", 2)
	return []types.NamespacedName{{Namespace: p[0], Name: p[1]}}
}

func ipStr(c uint32) string { return fmt.Sprintf("%d.%d.%d.%d", c>>24, c>>16&255, c>>8&255, c&255) }

// ToPods rewrites every workload of the world as a bare Pod (the eval command loads only Pod kinds).
func ToPods(w *wm.World) *wm.World {
	c := *w.NormalizeNS()
	for i := range c.WLs {
		c.WLs[i].Kind = "Pod"
		c.WLs[i].Replicas = 0
	}
	return &c
}

// queryPoints: first/last port of every cell and the outside neighbours, for the cells induced by
// the constants of the world and of the tool's own list answer.
func queryPoints(w *wm.World, tr wm.ToolResult) []int {
	set := map[int]bool{}
	add := func(x int) {
		if x >= 1 && x <= 65535 {
			set[x] = true
		}
	}
	for _, c := range w.PortCuts() {
		add(c - 1)
		add(c)
	}
	add(65535)
	for _, v := range tr.Conns {
		for _, ivs := range wm.ParseConn(v) {
			for _, iv := range ivs {
				add(iv[0] - 1)
				add(iv[0])
				add(iv[1])
				add(iv[1] + 1)
			}
		}
	}
	var res []int
	for k := range set {
		res = append(res, k)
	}
	sort.Ints(res)
	return res
}

func contains(conn string, proto string, port int) bool {
	for _, iv := range wm.ParseConn(conn)[proto] {
		if port >= iv[0] && port <= iv[1] {
			return true
		}
	}
	return false
}

type loader func(w *wm.World, names []types.NamespacedName) (*eval.PolicyEngine, error)

// sharedEngine returns a loader that builds ONE engine holding every object of the world (library use of the
// PolicyEngine: many queries on one engine, so results cached for one pair may meet another pair).
func sharedEngine() loader {
	var pe *eval.PolicyEngine
	var cur *wm.World
	return func(w *wm.World, _ []types.NamespacedName) (*eval.PolicyEngine, error) {
		if pe != nil && cur == w {
			return pe, nil
		}
		var names []types.NamespacedName
		for _, wl := range w.WLs {
			names = append(names, types.NamespacedName{Namespace: wl.NS, Name: wl.Name})
		}
		e, err := engineLikeCLI(w, names)
		if err != nil {
			return nil, err
		}
		pe, cur = e, w
		return pe, nil
	}
}

type opts struct {
	load     loader
	allPorts bool
	class    string
}

var queriesTotal atomic.Int64

func evalWorld(w *wm.World, x *fw.Rec, o opts) {
	tr, _ := wm.RunList(w.Infos(), false)
	x.Describe(func() any { return map[string]any{"world": w.Brief(), "manifests": w.YAMLDocs()} })
	if tr.Err != nil {
		x.Count("list_errors_skipped", 1)
		x.Outcome("ERR " + tr.Err.Error())
		return
	}
	pts := queryPoints(w, tr)
	if o.allPorts {
		pts = pts[:0]
		for p := 1; p <= 65535; p++ {
			pts = append(pts, p)
		}
	}
	type peer struct {
		q, list string
		idx     int
	}
	var peers []peer
	for i := range w.WLs {
		peers = append(peers, peer{w.WLs[i].NS + "/" + w.WLs[i].Name, w.WLs[i].PeerString(), i})
	}
	ipcuts := map[uint32]bool{}
	for _, c := range w.IPCuts() {
		ipcuts[c] = true
		if c > 0 {
			ipcuts[c-1] = true
		}
	}
	for _, rg := range tr.IPs {
		ipcuts[rg[0]] = true
		ipcuts[rg[1]] = true
	}
	ipcuts[^uint32(0)] = true
	nq := 0
	var verdicts strings.Builder
	fail := func(class, detail string) { x.Fail(o.class+class, "", detail) }
	for _, s := range peers {
		for _, d := range peers {
			pe, err := o.load(w, append(nn(d.q), nn(s.q)...))
			if err != nil {
				fail("engine could not be loaded although list analyses the input", fmt.Sprintf("%s -> %s: %v", s.q, d.q, err))
				continue
			}
			for _, proto := range []string{"TCP", "UDP", "SCTP"} {
				for _, port := range pts {
					nq++
					got, err := pe.CheckIfAllowed(s.q, d.q, strings.ToLower(proto), fmt.Sprint(port))
					if err != nil {
						fail("eval fails where list answers: "+errClass(err), fmt.Sprintf("%s -> %s %s/%d: %v", s.q, d.q, proto, port, err))
						break
					}
					var want bool
					src := "list"
					switch {
					case s.idx == d.idx:
						want, src = true, "a pod to itself"
					case s.list == d.list: // two pods of one owner: no list entry exists, compare with the reference
						want, src = w.Allowed(wm.Peer{WL: s.idx}, wm.Peer{WL: d.idx}, proto, port), "reference (pods of one owner)"
					default:
						want = contains(tr.At(s.list, d.list, 0, false, false), proto, port)
					}
					if got {
						verdicts.WriteByte('1')
					} else {
						verdicts.WriteByte('0')
					}
					if got != want {
						fail(fmt.Sprintf("pod->pod verdict differs from %s: eval=%v", src, got), fmt.Sprintf("%s -> %s %s/%d: eval=%v, %s=%v (list entry: %q)", s.q, d.q, proto, port, got, src, want, tr.At(s.list, d.list, 0, false, false)))
					}
				}
			}
		}
		for c := range ipcuts {
			ip := ipStr(c)
			pe, err := o.load(w, nn(s.q))
			if err != nil {
				fail("engine could not be loaded although list analyses the input", fmt.Sprintf("%s <-> %s: %v", s.q, ip, err))
				continue
			}
			for _, proto := range []string{"TCP", "UDP", "SCTP"} {
				for _, port := range pts {
					nq += 2
					got, err := pe.CheckIfAllowed(s.q, ip, strings.ToLower(proto), fmt.Sprint(port))
					want := contains(tr.At(s.list, "", c, false, true), proto, port)
					if err != nil {
						fail("eval fails where list answers: "+errClass(err), fmt.Sprintf("%s -> %s %s/%d: %v", s.q, ip, proto, port, err))
					} else if got != want {
						fail(fmt.Sprintf("pod->IP verdict differs from list: eval=%v", got), fmt.Sprintf("%s -> %s %s/%d: eval=%v list=%v (list entry: %q)", s.q, ip, proto, port, got, want, tr.At(s.list, "", c, false, true)))
					}
					got, err = pe.CheckIfAllowed(ip, s.q, strings.ToLower(proto), fmt.Sprint(port))
					want = contains(tr.At("", s.list, c, true, false), proto, port)
					if err != nil {
						fail("eval fails where list answers: "+errClass(err), fmt.Sprintf("%s -> %s %s/%d: %v", ip, s.q, proto, port, err))
					} else if got != want {
						fail(fmt.Sprintf("IP->pod verdict differs from list: eval=%v", got), fmt.Sprintf("%s -> %s %s/%d: eval=%v list=%v (list entry: %q)", ip, s.q, proto, port, got, want, tr.At("", s.list, c, true, false)))
					}
				}
			}
		}
	}
	queriesTotal.Add(int64(nq))
	x.Count("point_queries", int64(nq))
	x.Outcome(tr.OutcomeKey())
	if len(tr.Conns) > 0 && strings.Contains(verdicts.String(), "0") && strings.Contains(verdicts.String(), "1") {
		x.Nontrivial(tr.OutcomeKey())
		x.Sample(map[string]any{"world": w.Brief(), "queries": nq, "list": first(strings.Split(tr.OutcomeKey(), ";"), 4)})
	}
}

func first(s []string, k int) []string {
	if len(s) > k {
		return s[:k]
	}
	return s
}

func errClass(err error) string {
	s := err.Error()
	if len(s) > 80 {
		s = s[:80]
	}
	return s
}

// ---- worlds ----

var all = &wm.Sel{}

func pods() []wm.Workload {
	return []wm.Workload{
		{Kind: "Pod", NS: "ns1", Name: "p1", Labels: map[string]string{"app": "a"}, Ports: []wm.CPort{{Name: "http", Num: 80}}},
		{Kind: "Pod", NS: "ns1", Name: "p2", Labels: map[string]string{"app": "b"}, Ports: []wm.CPort{{Name: "http", Num: 8080}}},
		{Kind: "Pod", NS: "ns2", Name: "p3", Labels: map[string]string{"app": "a"}, Ports: []wm.CPort{{Name: "dns", Num: 53, Proto: "UDP"}}},
	}
}

func podsWithOwner() []wm.Workload {
	return []wm.Workload{
		{Kind: "Pod", NS: "ns1", Name: "r1-x", Owner: "r1", Labels: map[string]string{"app": "a"}, Ports: []wm.CPort{{Name: "http", Num: 80}}},
		{Kind: "Pod", NS: "ns1", Name: "r1-y", Owner: "r1", Labels: map[string]string{"app": "a"}, Ports: []wm.CPort{{Name: "http", Num: 80}}},
		{Kind: "Pod", NS: "ns2", Name: "p3", Labels: map[string]string{"app": "b"}, Ports: []wm.CPort{{Name: "http", Num: 8080}}},
	}
}

var nsConfigs = [][]wm.NS{
	{{Name: "ns1", Labels: map[string]string{"team": "a"}, HasObj: true}, {Name: "ns2", Labels: map[string]string{"team": "b"}, HasObj: true}},
	{{Name: "ns1", Labels: map[string]string{"team": "a"}, HasObj: true}},
	{},
}
var npPorts = [][]wm.NPPort{nil, {{HasPort: true, Num: 80}}, {{HasPort: true, Num: 80, End: 90}}, {{Proto: "UDP"}}, {{HasPort: true, Name: "http"}}, {{HasPort: true, Name: "dns", Proto: "UDP"}, {HasPort: true, Num: 81, End: 65535}}, {{Proto: "SCTP"}, {HasPort: true, Num: 1, End: 80}}}
var npPeers = [][]wm.NPPeer{nil, {{Pod: all}}, {{NSSel: wm.ML("team", "b")}}, {{CIDR: "10.0.0.0/8", Except: []string{"10.1.0.0/16"}}}, {{NSSel: wm.ML(wm.NSNameKey, "ns2")}}, {{Pod: wm.ML("app", "a")}, {CIDR: "0.0.0.0/0"}}}

func scopeNP(c *fw.Ctx) *wm.World {
	nsc := fw.Pick(c, nsConfigs, "namespace objects")
	dir := fw.Pick(c, []string{"Ingress", "Egress"}, "direction")
	pi := c.Choose(len(npPorts), "ports")
	qi := c.Choose(len(npPeers), "peers")
	owner := c.Choose(2, "pods: three bare pods | two pods of one owner + one")
	if dir == "Egress" && (qi == 0 || qi == 3 || qi == 5) && (pi == 4 || pi == 5) {
		c.Skip() // named port on an IP destination: the documented list error
	}
	w := &wm.World{NSs: nsc, WLs: pods()}
	if owner == 1 {
		w.WLs = podsWithOwner()
	}
	np := wm.NP{NS: "ns1", Name: "p", PodSel: wm.Sel{}, Types: []string{dir}}
	rl := wm.NPRule{Peers: npPeers[qi], Ports: npPorts[pi]}
	if dir == "Ingress" {
		np.Ingress = []wm.NPRule{rl}
	} else {
		np.Egress = []wm.NPRule{rl}
	}
	w.NPs = []wm.NP{np}
	return w
}

// same owner name and the same labels in two namespaces (collision-forcing for anything keyed by owner)
func podsSameOwnerTwoNamespaces() []wm.Workload {
	return []wm.Workload{
		{Kind: "Pod", NS: "ns1", Name: "r1-x", Owner: "r1", Labels: map[string]string{"app": "a"}, Ports: []wm.CPort{{Name: "http", Num: 80}}},
		{Kind: "Pod", NS: "ns2", Name: "r1-x", Owner: "r1", Labels: map[string]string{"app": "a"}, Ports: []wm.CPort{{Name: "http", Num: 80}}},
		{Kind: "Pod", NS: "ns1", Name: "s1-x", Owner: "s1", Labels: map[string]string{"app": "b"}, Ports: []wm.CPort{{Name: "http", Num: 8080}}},
		{Kind: "Pod", NS: "ns2", Name: "s1-x", Owner: "s1", Labels: map[string]string{"app": "b"}, Ports: []wm.CPort{{Name: "http", Num: 8080}}},
	}
}

func scopeShared(c *fw.Ctx) *wm.World {
	dir := fw.Pick(c, []string{"Ingress", "Egress"}, "direction")
	pi := c.Choose(len(npPorts), "ports")
	qi := c.Choose(len(npPeers), "peers")
	polNS := fw.Pick(c, []string{"ns1", "ns2"}, "policy namespace")
	second := c.Choose(3, "second policy: none | other namespace, other ports | ANP on ns2")
	if dir == "Egress" && (qi == 0 || qi == 3 || qi == 5) && (pi == 4 || pi == 5) {
		c.Skip()
	}
	w := &wm.World{NSs: nsConfigs[0], WLs: podsSameOwnerTwoNamespaces()}
	mk := func(ns, name string, pt []wm.NPPort) wm.NP {
		np := wm.NP{NS: ns, Name: name, PodSel: wm.Sel{}, Types: []string{dir}}
		rl := wm.NPRule{Peers: npPeers[qi], Ports: pt}
		if dir == "Ingress" {
			np.Ingress = []wm.NPRule{rl}
		} else {
			np.Egress = []wm.NPRule{rl}
		}
		return np
	}
	w.NPs = []wm.NP{mk(polNS, "p", npPorts[pi])}
	switch second {
	case 1:
		other := map[string]string{"ns1": "ns2", "ns2": "ns1"}[polNS]
		w.NPs = append(w.NPs, mk(other, "q", npPorts[(pi+2)%len(npPorts)]))
	case 2:
		p := []wm.APort{{Kind: "range", Proto: "TCP", Num: 80, End: 90}}
		w.ANPs = []wm.ANP{{Name: "a", Prio: 5, Subject: wm.APeer{Namespaces: wm.ML("team", "b")}, Ingress: []wm.ARule{{Action: "Deny", Peers: []wm.APeer{{Namespaces: all}}, Ports: &p}}, Egress: []wm.ARule{{Action: "Deny", Peers: []wm.APeer{{Namespaces: wm.ML("team", "a")}}, Ports: &p}}}}
	}
	return w
}

func ports(ps ...wm.APort) *[]wm.APort { return &ps }

var perms3 = [][]int{{0, 1, 2}, {0, 2, 1}, {1, 0, 2}, {1, 2, 0}, {2, 0, 1}, {2, 1, 0}}

func scopeANP(c *fw.Ctx) *wm.World {
	actions := []string{"Allow", "Deny", "Pass"}
	slices := []*[]wm.APort{ports(wm.APort{Kind: "num", Proto: "TCP", Num: 80}), ports(wm.APort{Kind: "range", Proto: "TCP", Num: 80, End: 90}), nil, ports(wm.APort{Kind: "named", Name: "http"}), ports(wm.APort{Kind: "named", Name: "dns"}, wm.APort{Kind: "range", Proto: "UDP", Num: 50, End: 60})}
	a1, a2 := c.Choose(3, "action@3"), c.Choose(3, "action@7")
	s1, s2 := c.Choose(len(slices), "slice@3"), c.Choose(len(slices), "slice@7")
	perm := fw.Pick(c, perms3, "document order")
	under := c.Choose(3, "underneath: ANP deny-all@11 | BANP deny 80-90 | NP")
	nsc := fw.Pick(c, nsConfigs[:2], "namespace objects")
	mk := func(name string, prio int, act string, sl *[]wm.APort) wm.ANP {
		rl := wm.ARule{Action: act, Peers: []wm.APeer{{Namespaces: all}}, Ports: sl}
		return wm.ANP{Name: name, Prio: prio, Subject: wm.APeer{Namespaces: all}, Ingress: []wm.ARule{rl}, Egress: []wm.ARule{rl}}
	}
	three := []wm.ANP{mk("x3", 3, actions[a1], slices[s1]), mk("x7", 7, actions[a2], slices[s2]), mk("x11", 11, "Deny", nil)}
	if under != 0 {
		three[2] = mk("x11", 11, "Pass", slices[1])
	}
	w := &wm.World{NSs: nsc, WLs: pods()}
	for _, i := range perm {
		w.ANPs = append(w.ANPs, three[i])
	}
	switch under {
	case 1:
		w.BANP = &wm.ANP{Name: "default", Subject: wm.APeer{PodsNS: all, PodsPod: wm.ML("app", "a")}, Ingress: []wm.ARule{{Action: "Deny", Peers: []wm.APeer{{Namespaces: wm.ML("team", "a")}}, Ports: slices[1]}},
			Egress: []wm.ARule{{Action: "Deny", Peers: []wm.APeer{{PodsNS: all, PodsPod: wm.ML("app", "b")}}}}}
	case 2:
		w.NPs = []wm.NP{{NS: "ns1", Name: "n", PodSel: wm.Sel{}, Types: []string{"Ingress"}, Ingress: []wm.NPRule{{Ports: []wm.NPPort{{HasPort: true, Num: 85, End: 95}}}}}}
	}
	return w
}

// ---- real-loader conformance and CLI binary ----

func writeWorld(dir string, w *wm.World) error {
	if err := os.MkdirAll(dir, 0o755); err != nil {
		return err
	}
	return os.WriteFile(filepath.Join(dir, "all.yaml"), []byte(strings.Join(w.YAMLDocs(), "---\n")), 0o644)
}

var dirSeq atomic.Int64

func realLoader(w *wm.World, names []types.NamespacedName) (*eval.PolicyEngine, error) {
	dir := filepath.Join(fw.Scratch, fmt.Sprintf("c03-%d", dirSeq.Add(1)))
	defer os.RemoveAll(dir)
	if err := writeWorld(dir, w); err != nil {
		return nil, err
	}
	pe, err := cli.VerifEvalLoad(dir, names, false)
	if pe != nil {
		pe.VerifCacheDebug(false)
	}
	return pe, err
}

func Run(r *fw.Run) {
	r.Rule = "worlds of bare Pods (own scopes + the C01/C02 world scopes rewritten to Pods); the engine is loaded exactly as `k8snetpolicy eval` does (objects filtered to the two pods, InsertObject in document order); queries: every ordered pod pair (incl. same pod, two pods of one owner), every IP-cell boundary address in both directions, 3 protocols x first/last port of every cell and the outside neighbours; verdict must equal membership in the list relation; non-trivial = the world yields both true and false verdicts; distinct = distinct list relations"
	r.Assume = []string{"cell queries assume the eval walker is constant between the constants of the input and of the list answer; the thorough tier removes the assumption on a designated scope by sweeping all 3x65535 ports",
		"the in-memory mirror of the CLI loader is bound to the real one by the cli-loader scope (real function through an in-package overlay hook) and the cli-binary scope (spawned binary)"}
	if r.Quick() {
		r.SetBudget(300 * time.Second)
	} else {
		r.SetBudget(30 * time.Minute)
	}
	mirror := opts{load: engineLikeCLI}
	fw.Explore(r, "S-np-pods", fw.Full, scopeNP, func(w *wm.World, x *fw.Rec) { evalWorld(w, x, mirror) })
	fw.Explore(r, "S-anp-pods", fw.Full, scopeANP, func(w *wm.World, x *fw.Rec) { evalWorld(w, x, mirror) })
	for _, sc := range c01.Scopes(true) {
		sc := sc
		if r.Quick() && sc.Name != "S-ports" && sc.Name != "S-rules" && sc.Name != "S-same-cidr" && sc.Name != "S-twins" {
			continue
		}
		fw.Explore(r, "C01/"+sc.Name, sc.Mode, func(c *fw.Ctx) *wm.World { return ToPods(sc.Gen(c)) }, func(w *wm.World, x *fw.Rec) { evalWorld(w, x, mirror) })
	}
	for _, sc := range c02.Scopes(true) {
		sc := sc
		if r.Quick() && sc.Name != "S-stack" && sc.Name != "S-many" && sc.Name != "S-multipeer" && sc.Name != "S-pieces" {
			continue
		}
		if r.Quick() && (sc.Name == "S-multipeer" || sc.Name == "S-pieces") {
			st := map[string]int{"S-multipeer": 25, "S-pieces": 3}[sc.Name]
			fw.Explore(r, fmt.Sprintf("C02/%s(1/%d)", sc.Name, st), sc.Mode, func(c *fw.Ctx) *wm.World {
				w := ToPods(sc.Gen(c))
				c.Stride(st)
				return w
			}, func(w *wm.World, x *fw.Rec) { evalWorld(w, x, mirror) })
			continue
		}
		if r.Quick() && sc.Name == "S-stack" {
			// quick tier: every third leaf of the stack scope
			fw.Explore(r, "C02/"+sc.Name+"(1/3)", sc.Mode, func(c *fw.Ctx) *wm.World {
				w := ToPods(sc.Gen(c))
				c.Stride(3)
				return w
			}, func(w *wm.World, x *fw.Rec) { evalWorld(w, x, mirror) })
			continue
		}
		fw.Explore(r, "C02/"+sc.Name, sc.Mode, func(c *fw.Ctx) *wm.World { return ToPods(sc.Gen(c)) }, func(w *wm.World, x *fw.Rec) { evalWorld(w, x, mirror) })
	}

	// one engine for all queries of a world (library use): same owner names across namespaces
	fw.Explore(r, "shared-engine", fw.Full, scopeShared, func(w *wm.World, x *fw.Rec) {
		evalWorld(w, x, opts{load: sharedEngine(), class: "[one engine for all queries] "})
	})

	// conformance: the real CLI loader (serialised: it uses package variables) on a sub-scope
	real := opts{load: realLoader, class: "[real CLI loader] "}
	stride := 9
	if !r.Quick() {
		stride = 2
	}
	fw.Explore(r, "cli-loader/np", fw.Full, func(c *fw.Ctx) *wm.World {
		w := scopeNP(c)
		c.Stride(stride)
		return w
	}, func(w *wm.World, x *fw.Rec) { evalWorld(w, x, real) })
	fw.Explore(r, "cli-loader/anp", fw.Full, func(c *fw.Ctx) *wm.World {
		w := scopeANP(c)
		c.Stride(stride * 6)
		return w
	}, func(w *wm.World, x *fw.Rec) { evalWorld(w, x, real) })

	// the built binary
	bin := os.Getenv("VERIF_CLI_BIN")
	if bin == "" {
		r.HarnessError("VERIF_CLI_BIN is not set (run through run.sh)")
		return
	}
	bstride := 40
	if !r.Quick() {
		bstride = 8
	}
	fw.Explore(r, "cli-binary", fw.Full, func(c *fw.Ctx) *wm.World {
		var w *wm.World
		if c.Choose(2, "np | anp") == 0 {
			w = scopeNP(c)
		} else {
			w = scopeANP(c)
		}
		c.Stride(bstride)
		return w
	}, func(w *wm.World, x *fw.Rec) { evalBinary(bin, w, x) })

	if !r.Quick() {
		// all 3 x 65535 ports on a designated scope (removes the piecewise-constancy assumption there)
		sweep := opts{load: engineLikeCLI, allPorts: true, class: "[all-ports sweep] "}
		fw.Explore(r, "all-ports-sweep", fw.Full, func(c *fw.Ctx) *wm.World {
			w := scopeNP(c)
			c.Stride(11)
			return w
		}, func(w *wm.World, x *fw.Rec) { evalWorld(w, x, sweep) })
	}
	r.Extra["point_queries_total"] = queriesTotal.Load()
}

func evalBinary(bin string, w *wm.World, x *fw.Rec) {
	tr, _ := wm.RunList(w.Infos(), false)
	x.Describe(func() any { return map[string]any{"world": w.Brief(), "manifests": w.YAMLDocs()} })
	if tr.Err != nil {
		return
	}
	dir := filepath.Join(fw.Scratch, fmt.Sprintf("c03b-%d", dirSeq.Add(1)))
	defer os.RemoveAll(dir)
	if err := writeWorld(dir, w); err != nil {
		x.Fail("harness: cannot write world", "", err.Error())
		return
	}
	pts := queryPoints(w, tr)
	// a handful of spawns per world: each pod pair at the most informative points
	n := 0
	for si := range w.WLs {
		for di := range w.WLs {
			if si == di {
				continue
			}
			s, d := &w.WLs[si], &w.WLs[di]
			for _, proto := range []string{"tcp", "udp"} {
				for _, port := range []int{pts[len(pts)/3], 80} {
					n++
					out, err := exec.Command(bin, "eval", "--dirpath", dir, "-q", "-s", s.Name, "-n", s.NS, "-d", d.Name, "--destination-namespace", d.NS, "-p", fmt.Sprint(port), "--protocol", proto).CombinedOutput()
					want := contains(tr.At(s.PeerString(), d.PeerString(), 0, false, false), strings.ToUpper(proto), port)
					if s.PeerString() == d.PeerString() {
						want = w.Allowed(wm.Peer{WL: si}, wm.Peer{WL: di}, strings.ToUpper(proto), port)
					}
					line := strings.TrimSpace(string(out))
					expLine := fmt.Sprintf("%s/%s => %s/%s over %s/%d: %t", s.NS, s.Name, d.NS, d.Name, proto, port, want)
					if err != nil {
						x.Fail("[CLI binary] eval exits with an error where list answers", "", fmt.Sprintf("%s/%s -> %s/%s %s/%d: %v\n%s", s.NS, s.Name, d.NS, d.Name, proto, port, err, line))
					} else if !strings.HasSuffix(line, expLine) {
						x.Fail("[CLI binary] eval prints a verdict that differs from list", "", fmt.Sprintf("expected line %q, got %q", expLine, line))
					}
				}
			}
		}
	}
	// external addresses: --source-ip A -d pod and -s pod --destination-ip A at one boundary address of the IP partition
	if len(tr.IPs) > 0 {
		lo := tr.IPs[len(tr.IPs)/2][0]
		addr := fmt.Sprintf("%d.%d.%d.%d", lo>>24, lo>>16&255, lo>>8&255, lo&255)
		for wi := range w.WLs {
			p := &w.WLs[wi]
			for _, fromIP := range []bool{true, false} {
				for _, port := range []int{pts[len(pts)/3], 80} {
					n++
					args := []string{"eval", "--dirpath", dir, "-q", "-p", fmt.Sprint(port), "--protocol", "tcp"}
					var want bool
					var expLine string
					if fromIP {
						args = append(args, "--source-ip", addr, "-d", p.Name, "--destination-namespace", p.NS)
						want = contains(tr.At("", p.PeerString(), lo, true, false), "TCP", port)
						expLine = fmt.Sprintf("%s => %s/%s over tcp/%d: %t", addr, p.NS, p.Name, port, want)
					} else {
						args = append(args, "-s", p.Name, "-n", p.NS, "--destination-ip", addr)
						want = contains(tr.At(p.PeerString(), "", lo, false, true), "TCP", port)
						expLine = fmt.Sprintf("%s/%s => %s over tcp/%d: %t", p.NS, p.Name, addr, port, want)
					}
					out, err := exec.Command(bin, args...).CombinedOutput()
					line := strings.TrimSpace(string(out))
					if err != nil {
						x.Fail("[CLI binary] eval with an external address exits with an error where list answers", "", fmt.Sprintf("args %v: %v\n%s", args[4:], err, firstLines(line, 3)))
					} else if !strings.HasSuffix(line, expLine) {
						x.Fail("[CLI binary] eval prints a verdict that differs from list", "", fmt.Sprintf("expected line %q, got %q", expLine, line))
					}
				}
			}
		}
	}
	x.Count("cli_spawns", int64(n))
	x.Outcome(tr.OutcomeKey())
	x.Nontrivial(tr.OutcomeKey())
}

func firstLines(s string, k int) string {
	l := strings.Split(s, "\n")
	if len(l) > k {
		l = l[:k]
	}
	return strings.Join(l, "\n")
}
