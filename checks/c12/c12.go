// Package c12: analysis is total - any input yields a result or an error, never a crash.
// Exhaustive single (thorough: double) structural mutation of every node of a seed corpus; every
// mutant directory goes through list, list --exposure (all formats), diff both ways and eval, in
// process-isolated workers (recover() for panics; a fatal runtime error or a hang kills only the
// worker and is attributed to the case).
package c12

import (
	"fmt"
	"os"
	"path/filepath"
	"regexp"
	"runtime/debug"
	"sort"
	"strings"
	"sync/atomic"
	"time"

	"k8s.io/apimachinery/pkg/types"
	"sigs.k8s.io/yaml"

	"github.com/np-guard/netpol-analyzer/pkg/cli"
	"github.com/np-guard/netpol-analyzer/pkg/netpol/connlist"
	"github.com/np-guard/netpol-analyzer/pkg/netpol/diff"

	"verif/checks/c02"
	"verif/checks/c10"
	"verif/checks/expo"
	"verif/fw"
	"verif/wm"
)

func init() { fw.Register("C12", "exploration", Run) }

type path []interface{}

type node struct {
	p path
	v interface{}
}

func walk(v interface{}, p path, f func(p path, v interface{})) {
	f(p, v)
	switch x := v.(type) {
	case map[string]interface{}:
		keys := []string{}
		for k := range x {
			keys = append(keys, k)
		}
		sort.Strings(keys)
		for _, k := range keys {
			walk(x[k], append(append(path{}, p...), k), f)
		}
	case []interface{}:
		for i := range x {
			walk(x[i], append(append(path{}, p...), i), f)
		}
	}
}

func nodes(doc interface{}) []node {
	var res []node
	walk(doc, nil, func(p path, v interface{}) {
		if len(p) > 0 {
			res = append(res, node{p, v})
		}
	})
	return res
}

func deepCopy(v interface{}) interface{} {
	switch x := v.(type) {
	case map[string]interface{}:
		m := map[string]interface{}{}
		for k, e := range x {
			m[k] = deepCopy(e)
		}
		return m
	case []interface{}:
		l := make([]interface{}, len(x))
		for i := range x {
			l[i] = deepCopy(x[i])
		}
		return l
	}
	return v
}

type drop struct{}

func set(root interface{}, p path, nv interface{}) interface{} {
	if len(p) == 0 {
		return nv
	}
	switch x := root.(type) {
	case map[string]interface{}:
		k := p[0].(string)
		if len(p) == 1 {
			if _, isDrop := nv.(drop); isDrop {
				delete(x, k)
				return x
			}
		}
		if _, ok := x[k]; !ok && len(p) > 1 {
			return x // path vanished after an earlier mutation
		}
		x[k] = set(x[k], p[1:], nv)
		return x
	case []interface{}:
		i := p[0].(int)
		if i >= len(x) {
			return x
		}
		if len(p) == 1 {
			if _, isDrop := nv.(drop); isDrop {
				return append(x[:i], x[i+1:]...)
			}
		}
		x[i] = set(x[i], p[1:], nv)
		return x
	}
	return root
}

func mutations(v interface{}) []interface{} {
	res := []interface{}{drop{}, nil}
	switch v.(type) {
	case map[string]interface{}:
		res = append(res, map[string]interface{}{}, []interface{}{}, "x", int64(7))
	case []interface{}:
		res = append(res, []interface{}{}, map[string]interface{}{}, "x", []interface{}{nil}, []interface{}{map[string]interface{}{}})
	case string:
		res = append(res, "", int64(7), []interface{}{"x"}, map[string]interface{}{"a": "b"}, "fe80::1", "not valid!", "10.0.0.0/33", "fd00::/8", "Unknown")
	default: // numbers, bools
		res = append(res, "x", int64(0), int64(-1), int64(70000), []interface{}{}, map[string]interface{}{}, false)
	}
	return res
}

func mutName(nv interface{}) string {
	if _, ok := nv.(drop); ok {
		return "drop"
	}
	return fmt.Sprintf("%T(%v)", nv, nv)
}

var argsRe = regexp.MustCompile(`\([^()]*\)$`)

// topFrame: the first function inside the repository below the panic (arguments stripped).
func topFrame(stack string) string {
	if idx := strings.Index(stack, "panic("); idx >= 0 {
		stack = stack[idx:]
	}
	for _, l := range strings.Split(stack, "\n") {
		l = strings.TrimSpace(l)
		if !strings.HasPrefix(l, "github.com/np-guard/netpol-analyzer/") || strings.Contains(l, "zz_verif") || strings.Contains(l, "zzverif") {
			continue
		}
		l = argsRe.ReplaceAllString(l, "")
		return strings.TrimPrefix(l, "github.com/np-guard/netpol-analyzer/")
	}
	return "outside-repo"
}

func guarded(name string, f func()) (res, detail string) {
	defer func() {
		if r := recover(); r != nil {
			st := string(debug.Stack())
			res = fmt.Sprintf("panic at %s", topFrame(st))
			_ = name
			detail = fmt.Sprintf("%v\n%s", r, trim(st))
		}
	}()
	f()
	return "", ""
}

func trim(s string) string {
	var keep []string
	for _, l := range strings.Split(s, "\n") {
		if strings.Contains(l, "netpol-analyzer/") {
			keep = append(keep, strings.TrimSpace(l))
		}
		if len(keep) > 10 {
			break
		}
	}
	return strings.Join(keep, "\n")
}

// Case: the documents of one mutant directory (or raw file contents for byte-level mutants).
type Case struct {
	Desc   string
	Docs   []interface{} // structured mutants
	Raw    string        // byte-level mutants (non-empty = use it)
	HasANP bool          // the directory contains admin policies (exposure analysis refuses them up front)
}

var parsed []map[string]interface{}
var seedDir string
var dirSeq atomic.Int64

func setup() {
	if parsed != nil {
		return
	}
	for _, s := range Seeds {
		var m map[string]interface{}
		if err := yaml.Unmarshal([]byte(s), &m); err != nil {
			panic(err)
		}
		parsed = append(parsed, m)
	}
	seedDir = filepath.Join(fw.Scratch, "c12-seed")
	os.MkdirAll(seedDir, 0o755)
	os.WriteFile(filepath.Join(seedDir, "a.yaml"), []byte(strings.Join(Seeds, "\n---\n")), 0o644)
}

func isAdmin(d interface{}) bool {
	m, ok := d.(map[string]interface{})
	if !ok {
		return false
	}
	k, _ := m["kind"].(string)
	return k == "AdminNetworkPolicy" || k == "BaselineAdminNetworkPolicy"
}

func render(cs Case, withAdmin bool) string {
	if cs.Raw != "" {
		return cs.Raw
	}
	var parts []string
	for _, d := range cs.Docs {
		if !withAdmin && isAdmin(d) {
			continue
		}
		b, err := yaml.Marshal(d)
		if err != nil {
			continue
		}
		parts = append(parts, string(b))
	}
	return strings.Join(parts, "\n---\n")
}

func eval(cs Case, x *fw.Rec) {
	x.Describe(func() any { return map[string]any{"case": cs.Desc, "directory_content": render(cs, true)} })
	id := dirSeq.Add(1)
	dir := filepath.Join(fw.Scratch, fmt.Sprintf("c12-m%d", id))
	dirNoAdmin := filepath.Join(fw.Scratch, fmt.Sprintf("c12-m%d-noadmin", id))
	os.MkdirAll(dir, 0o755)
	os.MkdirAll(dirNoAdmin, 0o755)
	defer os.RemoveAll(dir)
	defer os.RemoveAll(dirNoAdmin)
	os.WriteFile(filepath.Join(dir, "a.yaml"), []byte(render(cs, true)), 0o644)
	os.WriteFile(filepath.Join(dirNoAdmin, "a.yaml"), []byte(render(cs, false)), 0o644)
	var outc []string
	run := func(name string, f func() string) {
		var oc string
		res, detail := guarded(name, func() { oc = f() })
		if res != "" {
			x.Fail(res, "", "command: "+name+"\n"+cs.Desc+"\n"+detail)
			oc = "PANIC"
		}
		outc = append(outc, name+"="+oc)
	}
	list := func(d string, exposure bool) func() string {
		return func() string {
			opts := []connlist.ConnlistAnalyzerOption{connlist.WithLogger(wm.Quiet()), connlist.WithMuteErrsAndWarns()}
			if exposure {
				opts = append(opts, connlist.WithExposureAnalysis())
			}
			ca := connlist.NewConnlistAnalyzer(opts...)
			conns, _, err := ca.ConnlistFromDirPath(d)
			for _, e := range ca.Errors() {
				_ = e.Error().Error()
			}
			if err != nil {
				return "error"
			}
			for _, f := range []string{"txt", "dot", "json", "md", "csv"} {
				ca2 := connlist.NewConnlistAnalyzer(append(opts, connlist.WithOutputFormat(f))...)
				c2, _, err2 := ca2.ConnlistFromDirPath(d)
				if err2 == nil {
					_, _ = ca2.ConnectionsListToString(c2)
				}
			}
			return fmt.Sprintf("ok(%d)", len(conns))
		}
	}
	run("list", list(dir, false))
	run("list --exposure", list(dirNoAdmin, true))
	if cs.HasANP {
		run("list --exposure (with admin policies)", list(dir, true))
	}
	run("diff(mutant, seed)", func() string {
		da := diff.NewDiffAnalyzer(diff.WithLogger(wm.Quiet()))
		d, err := da.ConnDiffFromDirPaths(dir, seedDir)
		for _, e := range da.Errors() {
			_ = e.Error().Error()
		}
		if err != nil {
			return "error"
		}
		for _, f := range []string{"txt", "md", "csv", "dot"} {
			da2 := diff.NewDiffAnalyzer(diff.WithLogger(wm.Quiet()), diff.WithOutputFormat(f))
			if d2, err2 := da2.ConnDiffFromDirPaths(dir, seedDir); err2 == nil {
				da2.ConnectivityDiffToString(d2)
			}
		}
		_ = d
		return "ok"
	})
	run("diff(seed, mutant)", func() string {
		da := diff.NewDiffAnalyzer(diff.WithLogger(wm.Quiet()))
		if d, err := da.ConnDiffFromDirPaths(seedDir, dir); err == nil {
			da.ConnectivityDiffToString(d)
			return "ok"
		}
		return "error"
	})
	run("eval", func() string {
		names := []types.NamespacedName{{Namespace: "ns1", Name: "p2"}, {Namespace: "ns1", Name: "p1"}}
		pe, err := cli.VerifEvalLoad(dir, names, false)
		if err != nil || pe == nil {
			return "error"
		}
		pe.VerifCacheDebug(false)
		res := ""
		for _, q := range [][4]string{{"ns1/p1", "ns1/p2", "tcp", "80"}, {"ns1/p2", "ns1/p1", "tcp", "80"}, {"ns1/p2", "ns1/p1", "tcp", "http"}, {"ns1/p1", "10.1.2.3", "udp", "53"}, {"10.0.0.5", "ns1/p1", "tcp", "90"},
			// peer, protocol and port strings as a command line may carry them: IPv6 address and CIDR, out-of-range address and prefix, empty and over-qualified names, unknown protocol, odd ports
			{"ns1/p1", "::1", "tcp", "80"}, {"fd00::/8", "ns1/p1", "tcp", "80"}, {"ns1/p1", "300.1.1.1", "tcp", "80"}, {"10.0.0.0/33", "ns1/p1", "tcp", "80"}, {"", "ns1/p1", "tcp", "80"},
			{"a/b/c", "ns1/p1", "tcp", "80"}, {"ns1/p1", "ns1/p2", "icmp", "80"}, {"ns1/p1", "ns1/p2", "tcp", "-1"}, {"ns1/p1", "ns1/p2", "tcp", "70000"}, {"ns1/p1", "ns1/p2", "", ""}, {"ns1/p1", "0.0.0.0/0", "sctp", "nosuch"}} {
			v, e := pe.CheckIfAllowed(q[0], q[1], q[2], q[3])
			res += fmt.Sprintf("%v/%v ", v, e != nil)
		}
		return res
	})
	oc := strings.Join(outc, ";")
	x.Outcome(oc)
	if strings.Contains(oc, "error") || strings.Contains(oc, "PANIC") || strings.Contains(oc, "false") {
		x.Nontrivial(oc + "|" + kindOfCase(cs.Desc))
		x.Sample(map[string]any{"case": cs.Desc, "results": outc})
	}
}

func kindOfCase(d string) string {
	if i := strings.Index(d, " path="); i > 0 {
		return d[:i]
	}
	return d
}

func mutate(c *fw.Ctx, docs []interface{}, di int, label string) string {
	ns := nodes(docs[di])
	if len(ns) == 0 {
		c.Skip()
	}
	n := ns[c.Choose(len(ns), label+" node")]
	ms := mutations(n.v)
	nv := ms[c.Choose(len(ms), label+" mutation")]
	docs[di] = set(docs[di], n.p, nv)
	return fmt.Sprintf("path=%v %s", n.p, mutName(nv))
}

func copies() []interface{} {
	all := make([]interface{}, len(parsed))
	for k := range parsed {
		all[k] = deepCopy(parsed[k])
	}
	return all
}

func Run(r *fw.Run) {
	r.Rule = "seed corpus = one valid manifest per kind the tool reads (18 documents incl. a List wrapper and a NetworkPolicy whose entire-cluster rule has named ports only); every single structural mutation (drop, null, empty map/list/string, retype, value alphabet: IPv6 / invalid addresses and CIDRs, 0 / -1 / 70000, unknown enum strings) of every node; thorough adds all pairs of mutations within one document and byte-level truncations / line deletions; plus eight valid documents with API fields or API versions the analysis does not support (ANP networks / nodes / domainNames peers, a reversed port range, extensions/v1beta1 Ingress and NetworkPolicy, batch/v1beta1 CronJob, Route weights and non-Service backends) or on the documented named-port error path, each alone next to the corpus, unmutated and singly mutated; plus strided worlds of the exposure, admin-policy and ingress alphabets through the resource-info API (feature interactions on valid input); each mutant directory is analysed by list, list --exposure (all five formats each), diff in both positions (four formats) and eval (loader of the CLI + five queries); non-trivial = the mutant changes an outcome (error / different result); distinct = distinct outcome vectors per document kind"
	r.Assume = []string{"oracle: every call returns (result and/or error); a recovered panic, a dead worker process or a 120 s per-case watchdog expiry is a violation", "exposure analysis is run on the corpus without the admin-policy documents (it refuses them up front), and additionally with them when the mutated document is an admin policy"}
	setup()
	if r.Quick() {
		r.SetBudget(300 * time.Second)
	} else {
		r.SetBudget(40 * time.Minute)
	}
	r.Bounds["documents"] = len(parsed)
	total := 0
	for _, d := range parsed {
		total += len(nodes(d))
	}
	r.Bounds["nodes"] = total
	onCrash := func(kind, output string, cs Case) (fw.Failure, any) {
		return fw.Failure{Class: kind + " of the analysis process: " + topFrame(output), Detail: cs.Desc + "\n" + head(output, 2500)},
			map[string]any{"case": cs.Desc, "directory_content": render(cs, true)}
	}
	fw.ExploreIsolated(r, "single-mutation", fw.Full, 120*time.Second, func(c *fw.Ctx) Case {
		di := c.Choose(len(parsed), "document")
		docs := copies()
		d := mutate(c, docs, di, "first")
		return Case{Desc: fmt.Sprintf("doc=%d(%v) %s", di, parsed[di]["kind"], d), Docs: docs, HasANP: isAdmin(parsed[di])}
	}, eval, onCrash)
	// valid documents with unsupported fields / documented error paths, one at a time next to the corpus
	var extras []map[string]interface{}
	for _, s := range Extras {
		var m map[string]interface{}
		if err := yaml.Unmarshal([]byte(s), &m); err != nil {
			panic(err)
		}
		extras = append(extras, m)
	}
	fw.ExploreIsolated(r, "unsupported-fields", fw.Full, 120*time.Second, func(c *fw.Ctx) Case {
		ei := c.Choose(len(extras), "extra document")
		docs := copies()
		// the extra BANP replaces the one of the corpus (two BANPs are a conflict of their own)
		if extras[ei]["kind"] == "BaselineAdminNetworkPolicy" {
			var keep []interface{}
			for _, d := range docs {
				if d.(map[string]interface{})["kind"] != "BaselineAdminNetworkPolicy" {
					keep = append(keep, d)
				}
			}
			docs = keep
		}
		docs = append(docs, deepCopy(extras[ei]))
		d := "unmutated"
		if c.Choose(2, "unmutated | mutated") == 1 {
			d = mutate(c, docs, len(docs)-1, "first")
		}
		return Case{Desc: fmt.Sprintf("extra=%d(%v %v) %s", ei, extras[ei]["kind"], extras[ei]["metadata"], d), Docs: docs, HasANP: isAdmin(extras[ei])}
	}, eval, onCrash)
	// valid worlds of the other checks' alphabets (feature interactions rather than malformed input)
	validWorlds(r)
	if r.Quick() {
		return
	}
	fw.ExploreIsolated(r, "byte-level", fw.Full, 120*time.Second, func(c *fw.Ctx) Case {
		si := fw.Pick(c, []int{1, 13, 14, 11}, "seed file")
		src := Seeds[si]
		lines := strings.SplitAfter(src, "\n")
		kind := c.Choose(3, "truncate at line | truncate inside line | delete line")
		li := c.Choose(len(lines), "line")
		var mut string
		switch kind {
		case 0:
			mut = strings.Join(lines[:li], "")
		case 1:
			mut = strings.Join(lines[:li], "") + lines[li][:len(lines[li])/2]
		default:
			mut = strings.Join(lines[:li], "") + strings.Join(lines[li+1:], "")
		}
		var rest []string
		for k, s := range Seeds {
			if k != si {
				rest = append(rest, s)
			}
		}
		return Case{Desc: fmt.Sprintf("byte-level seed=%d kind=%d line=%d", si, kind, li), Raw: strings.Join(append(rest, mut), "\n---\n"), HasANP: true}
	}, eval, onCrash)
	fw.ExploreIsolated(r, "double-mutation", fw.Full, 120*time.Second, func(c *fw.Ctx) Case {
		di := c.Choose(len(parsed), "document")
		docs := copies()
		d1 := mutate(c, docs, di, "first")
		d2 := mutate(c, docs, di, "second")
		return Case{Desc: fmt.Sprintf("doc=%d(%v) %s ; %s", di, parsed[di]["kind"], d1, d2), Docs: docs, HasANP: isAdmin(parsed[di])}
	}, eval, onCrash)
}

// validWorlds runs every command on (strided) worlds of the exposure, admin-policy and ingress scopes.
func validWorlds(r *fw.Run) {
	type src struct {
		name   string
		gen    func(*fw.Ctx) *wm.World
		stride int
	}
	var srcs []src
	for _, sc := range expo.Scopes(true) {
		srcs = append(srcs, src{"expo-" + sc.Name, sc.Gen, map[string]int{"shared-policy": 1, "one-policy/two-rules": 8, "two-policies": 2}[sc.Name]})
	}
	for _, sc := range c02.Scopes(true) {
		if sc.Name == "S-single" {
			srcs = append(srcs, src{"c02-" + sc.Name, sc.Gen, 10})
		}
	}
	srcs = append(srcs, src{"c10-ingress", c10.GenIngress, 100}, src{"c10-route", c10.GenRoute, 200})
	base := (&wm.World{WLs: []wm.Workload{{Kind: "Deployment", NS: "ns1", Name: "w1", Labels: map[string]string{"app": "a"}, Replicas: 1}}}).Infos()
	for _, sc := range srcs {
		sc := sc
		st := sc.stride
		if !r.Quick() {
			st = (st + 7) / 8
		}
		fw.Explore(r, "valid-worlds/"+sc.name, fw.Full, func(c *fw.Ctx) *wm.World {
			w := sc.gen(c)
			c.Stride(st)
			return w
		}, func(w *wm.World, x *fw.Rec) {
			x.Describe(func() any { return map[string]any{"world": w.Brief(), "manifests": w.YAMLDocs()} })
			infos := w.Infos()
			var outc []string
			run := func(name string, f func() string) {
				var oc string
				res, detail := guarded(name, func() { oc = f() })
				if res != "" {
					x.Fail(res, "", "command: "+name+"\n"+strings.Join(w.Brief(), "\n")+"\n"+detail)
					oc = "PANIC"
				}
				outc = append(outc, name+"="+oc)
			}
			list := func(exposure bool) func() string {
				return func() string {
					res := ""
					for _, f := range []string{"txt", "dot", "json", "md", "csv"} {
						opts := []connlist.ConnlistAnalyzerOption{connlist.WithLogger(wm.Quiet()), connlist.WithMuteErrsAndWarns(), connlist.WithOutputFormat(f)}
						if exposure {
							opts = append(opts, connlist.WithExposureAnalysis())
						}
						ca := connlist.NewConnlistAnalyzer(opts...)
						cs, _, err := ca.ConnlistFromResourceInfos(infos)
						for _, e := range ca.Errors() {
							_ = e.Error().Error()
						}
						if err != nil {
							return "error"
						}
						_, _ = ca.ConnectionsListToString(cs)
						res = fmt.Sprintf("ok(%d)", len(cs))
					}
					return res
				}
			}
			run("list", list(false))
			run("list --exposure", list(true))
			for _, pos := range []int{1, 2} {
				pos := pos
				run(fmt.Sprintf("diff(position %d)", pos), func() string {
					a, b := infos, base
					if pos == 2 {
						a, b = base, infos
					}
					for _, f := range []string{"txt", "md", "csv", "dot"} {
						da := diff.NewDiffAnalyzer(diff.WithLogger(wm.Quiet()), diff.WithOutputFormat(f))
						d, err := da.ConnDiffFromResourceInfos(a, b)
						if err != nil {
							return "error"
						}
						_, _ = da.ConnectivityDiffToString(d)
					}
					return "ok"
				})
			}
			oc := strings.Join(outc, ";")
			x.Outcome(oc)
			x.Nontrivial(oc + strings.Join(w.Brief(), "|"))
		})
	}
}

func head(s string, n int) string {
	if len(s) > n {
		return s[:n]
	}
	return s
}
