package c12

// Seeds: one valid manifest per kind the tool reads (plus a List wrapper and a second pod).
var Seeds = []string{`apiVersion: v1
kind: Namespace
metadata:
  name: ns1
  labels: {team: a}
`, `apiVersion: v1
kind: Pod
metadata:
  name: p1
  namespace: ns1
  labels: {app: a}
  ownerReferences:
  - apiVersion: apps/v1
    kind: ReplicaSet
    name: rs1
    controller: true
spec:
  containers:
  - name: c
    image: x
    ports:
    - containerPort: 80
      name: http
      protocol: TCP
status:
  hostIP: 192.168.1.1
  podIPs:
  - ip: 10.0.0.1
`, `apiVersion: v1
kind: Pod
metadata:
  name: p2
  namespace: ns1
  labels: {app: p2}
spec:
  containers:
  - name: c
    image: x
    ports:
    - containerPort: 53
      protocol: UDP
      name: dns
status:
  hostIP: 192.168.1.2
  podIP: 10.0.0.2
`, `apiVersion: apps/v1
kind: Deployment
metadata: {name: d1, namespace: ns1}
spec:
  replicas: 2
  selector: {matchLabels: {app: b}}
  template:
    metadata: {labels: {app: b}}
    spec:
      containers:
      - name: c
        image: x
        ports: [{containerPort: 8080, name: web}]
`, `apiVersion: apps/v1
kind: ReplicaSet
metadata: {name: rsx, namespace: ns1}
spec:
  replicas: 1
  selector: {matchLabels: {app: rsx}}
  template:
    metadata: {labels: {app: rsx}}
    spec:
      containers: [{name: c, image: x}]
`, `apiVersion: apps/v1
kind: StatefulSet
metadata: {name: ss1, namespace: ns1}
spec:
  replicas: 1
  serviceName: s1
  selector: {matchLabels: {app: ss}}
  template:
    metadata: {labels: {app: ss}}
    spec:
      containers: [{name: c, image: x}]
`, `apiVersion: apps/v1
kind: DaemonSet
metadata: {name: ds1, namespace: ns1}
spec:
  selector: {matchLabels: {app: ds}}
  template:
    metadata: {labels: {app: ds}}
    spec:
      containers: [{name: c, image: x}]
`, `apiVersion: v1
kind: ReplicationController
metadata: {name: rc1, namespace: ns1}
spec:
  replicas: 1
  template:
    metadata: {labels: {app: c}}
    spec:
      containers: [{name: c, image: x}]
`, `apiVersion: batch/v1
kind: CronJob
metadata: {name: cj1, namespace: ns1}
spec:
  schedule: "* * * * *"
  jobTemplate:
    spec:
      template:
        metadata: {labels: {app: d}}
        spec:
          containers: [{name: c, image: x}]
`, `apiVersion: batch/v1
kind: Job
metadata: {name: j1, namespace: ns1}
spec:
  parallelism: 2
  template:
    metadata: {labels: {app: e}}
    spec:
      containers: [{name: c, image: x}]
`, `apiVersion: v1
kind: Service
metadata: {name: s1, namespace: ns1}
spec:
  selector: {app: b}
  ports:
  - name: p1
    port: 80
    targetPort: web
`, `apiVersion: networking.k8s.io/v1
kind: Ingress
metadata: {name: i1, namespace: ns1}
spec:
  defaultBackend:
    service: {name: s1, port: {number: 80}}
  rules:
  - host: h
    http:
      paths:
      - path: /
        pathType: Prefix
        backend:
          service: {name: s1, port: {name: p1}}
`, `apiVersion: route.openshift.io/v1
kind: Route
metadata: {name: r1, namespace: ns1}
spec:
  to: {kind: Service, name: s1}
  alternateBackends: [{kind: Service, name: s1}]
  port: {targetPort: p1}
`, `apiVersion: networking.k8s.io/v1
kind: NetworkPolicy
metadata: {name: np1, namespace: ns1}
spec:
  podSelector: {matchLabels: {app: a}}
  policyTypes: [Ingress, Egress]
  ingress:
  - from:
    - podSelector: {matchExpressions: [{key: app, operator: In, values: [b]}]}
      namespaceSelector: {matchLabels: {team: a}}
    - ipBlock: {cidr: 10.0.0.0/8, except: [10.1.0.0/16]}
    ports:
    - port: http
      protocol: TCP
    - port: 90
      endPort: 95
  egress:
  - to:
    - namespaceSelector: {}
    ports: [{port: 53, protocol: UDP}]
`, `apiVersion: networking.k8s.io/v1
kind: NetworkPolicy
metadata: {name: np2, namespace: ns1}
spec:
  podSelector: {}
  ingress:
  - from: [{namespaceSelector: {}}]
    ports: [{port: http}]
  - ports: [{port: dns, protocol: UDP}, {port: web, protocol: SCTP}]
`, `apiVersion: policy.networking.k8s.io/v1alpha1
kind: AdminNetworkPolicy
metadata: {name: anp1}
spec:
  priority: 5
  subject: {namespaces: {}}
  ingress:
  - name: r1
    action: Allow
    from: [{pods: {namespaceSelector: {}, podSelector: {matchLabels: {app: a}}}}]
    ports: [{portNumber: {port: 80, protocol: TCP}}, {namedPort: http}, {portRange: {start: 1, end: 10, protocol: UDP}}]
  egress:
  - name: r2
    action: Pass
    to: [{namespaces: {matchLabels: {team: a}}}]
`, `apiVersion: policy.networking.k8s.io/v1alpha1
kind: BaselineAdminNetworkPolicy
metadata: {name: default}
spec:
  subject: {pods: {namespaceSelector: {}, podSelector: {}}}
  ingress:
  - name: r1
    action: Deny
    from: [{namespaces: {}}]
`, `apiVersion: v1
kind: List
items:
- apiVersion: v1
  kind: Pod
  metadata: {name: lp1, namespace: ns2, labels: {app: l}}
  spec:
    containers: [{name: c, image: x}]
- apiVersion: networking.k8s.io/v1
  kind: NetworkPolicy
  metadata: {name: lnp, namespace: ns2}
  spec:
    podSelector: {}
    ingress:
    - from: [{podSelector: {}}]
`}

// Extras are valid manifests that use API fields the analysis does not support, or documented error paths; each is
// added (alone) to the corpus, unmutated and with every single mutation. On a tree that reports them with an error
// most outcomes are "error"; they matter as soon as a change starts to evaluate the field.
var Extras = []string{`apiVersion: policy.networking.k8s.io/v1alpha1
kind: AdminNetworkPolicy
metadata: {name: anp-networks}
spec:
  priority: 7
  subject: {namespaces: {}}
  egress:
  - name: e1
    action: Deny
    to: [{networks: [10.0.0.0/8, "fd00::/8"]}]
    ports: [{namedPort: http}, {portNumber: {port: 80, protocol: TCP}}]
  - name: e2
    action: Allow
    to: [{nodes: {matchLabels: {kubernetes.io/os: linux}}}, {domainNames: ["*.example.com"]}]
`, `apiVersion: policy.networking.k8s.io/v1alpha1
kind: BaselineAdminNetworkPolicy
metadata: {name: default}
spec:
  subject: {namespaces: {}}
  egress:
  - name: e1
    action: Allow
    to: [{networks: [0.0.0.0/0]}]
    ports: [{namedPort: dns}]
`, `apiVersion: networking.k8s.io/v1
kind: NetworkPolicy
metadata: {name: np-named-to-ip, namespace: ns1}
spec:
  podSelector: {matchLabels: {app: a}}
  policyTypes: [Egress]
  egress:
  - to: [{ipBlock: {cidr: 0.0.0.0/0}}, {namespaceSelector: {}}]
    ports: [{port: http}, {port: dns, protocol: UDP}]
`, `apiVersion: policy.networking.k8s.io/v1alpha1
kind: AdminNetworkPolicy
metadata: {name: anp-same-labels-samenamespace}
spec:
  priority: 9
  subject: {pods: {namespaceSelector: {matchLabels: {team: a}}, podSelector: {}}}
  ingress:
  - name: i1
    action: Pass
    from: [{namespaces: {matchExpressions: [{key: team, operator: Exists}]}}]
    ports: [{portRange: {start: 100, end: 90, protocol: TCP}}]
`, `apiVersion: extensions/v1beta1
kind: Ingress
metadata: {name: old-ingress, namespace: ns1}
spec:
  backend: {serviceName: s1, servicePort: 80}
  rules:
  - host: h
    http:
      paths:
      - path: /
        backend: {serviceName: s1, servicePort: p1}
`, `apiVersion: batch/v1beta1
kind: CronJob
metadata: {name: old-cronjob, namespace: ns1}
spec:
  schedule: "* * * * *"
  jobTemplate:
    spec:
      template:
        metadata: {labels: {app: oldcj}}
        spec:
          containers: [{name: c, image: x, ports: [{containerPort: 81, name: http}]}]
`, `apiVersion: extensions/v1beta1
kind: NetworkPolicy
metadata: {name: old-netpol, namespace: ns1}
spec:
  podSelector: {matchLabels: {app: b}}
  ingress:
  - from: [{podSelector: {}}]
    ports: [{port: web}]
`, `apiVersion: route.openshift.io/v1
kind: Route
metadata: {name: r-weights, namespace: ns1}
spec:
  host: example.com
  to: {kind: Service, name: s1, weight: 0}
  alternateBackends: [{kind: Service, name: nosuch, weight: 100}, {kind: ImageStream, name: s1}]
  port: {targetPort: 80}
  tls: {termination: edge}
`, `apiVersion: v1
kind: Pod
metadata:
  name: p1
  namespace: ns1
  labels: {app: a}
  ownerReferences: [{apiVersion: apps/v1, kind: ReplicaSet, name: rs1, controller: true}]
spec:
  containers: [{name: c, image: x, ports: [{containerPort: 80, name: http}]}]
status:
  hostIP: 192.168.1.1
  podIPs: [{ip: 10.0.0.1}]
`, `apiVersion: apps/v1
kind: StatefulSet
metadata: {name: d1, namespace: ns1}
spec:
  replicas: 2
  serviceName: s1
  selector: {matchLabels: {app: b}}
  template:
    metadata: {labels: {app: b}}
    spec:
      containers: [{name: c, image: x, ports: [{containerPort: 8080, name: web}]}]
`, `apiVersion: v1
kind: List
items:
- apiVersion: v1
  kind: Service
  metadata: {name: s-noports, namespace: ns1}
  spec:
    selector: {app: e}
    ports:
    - {name: p1, port: 80, targetPort: 8080}
    - {name: p2, port: 81}
    - {name: p3, port: 53, protocol: UDP}
- apiVersion: networking.k8s.io/v1
  kind: Ingress
  metadata: {name: i-noports, namespace: ns1}
  spec:
    defaultBackend:
      service: {name: s-noports, port: {number: 80}}
    rules:
    - http:
        paths:
        - path: /
          pathType: Prefix
          backend:
            service: {name: s-noports, port: {number: 81}}
- apiVersion: route.openshift.io/v1
  kind: Route
  metadata: {name: r-noports, namespace: ns1}
  spec:
    to: {kind: Service, name: s-noports}
    port: {targetPort: 8080}
`}
