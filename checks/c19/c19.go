// Package c19: conflicting policy sets are always rejected, never resolved by input order.
// The "states" are input orders; the transition relation is the comparison sequence of the sort /
// the insertion sequence of the loader. All permutations for small n, every position pair over
// families of base orders for n up to 51 (both sides of pdqsort's thresholds 12 and 50).
package c19

import (
	"fmt"
	"math"
	"regexp"
	"strings"
	"time"

	"k8s.io/apimachinery/pkg/apis/meta/v1/unstructured"
	"k8s.io/cli-runtime/pkg/resource"

	"verif/checks/c02"
	"verif/fw"
	"verif/wm"
)

func init() { fw.Register("C19", "model_checking", Run) }

var all = &wm.Sel{}

type Case struct {
	Infos    []*resource.Info
	Expect   []string // substrings the error must contain (names the conflict); nil = negative control (must be accepted)
	Desc     string
	Exposure bool // also run list with exposure (no admin policies in the input)
}

func anp(name string, prio int) *wm.ANP {
	r := wm.ARule{Action: "Allow", Peers: []wm.APeer{{Namespaces: all}}}
	return &wm.ANP{Name: name, Prio: prio, Subject: wm.APeer{Namespaces: all}, Ingress: []wm.ARule{r}}
}

// bare: an admin policy with priority and subject only (no rules at all): valid, and as much a party to a conflict as any other
func bare(a *wm.ANP) *wm.ANP {
	a.Ingress, a.Egress = nil, nil
	return a
}

func workloads() []*resource.Info {
	return []*resource.Info{
		wm.InfoWorkload(wm.Workload{Kind: "Deployment", NS: "ns1", Name: "w1", Labels: map[string]string{"app": "a"}, Replicas: 1}),
		wm.InfoWorkload(wm.Workload{Kind: "Deployment", NS: "ns1", Name: "w2", Labels: map[string]string{"app": "b"}, Replicas: 1}),
	}
}

var cleanRef []*resource.Info

// surroundings are the documents next to the conflicting ones: the conflict must be rejected whatever else the input
// holds, in particular when it holds no workload at all and when Services (whose selectors make the ingress analysis
// look at the pods of single namespaces before the peers are listed) of other namespaces come first.
var surroundNames = []string{"two-deployments", "no-workload-at-all", "services-of-other-namespaces-first", "services-last"}

func surroundings(c *fw.Ctx) (before, after []*resource.Info, name string) {
	k := c.Choose(len(surroundNames), "surrounding documents")
	svcs := []*resource.Info{
		wm.Svc{NS: "ns2", Name: "svc-x", Sel: map[string]string{"app": "x"}, Ports: []wm.SvcPort{{Port: 80}}}.Info(),
		wm.Svc{NS: "ns3", Name: "svc-none", Sel: map[string]string{"app": "none"}, Ports: []wm.SvcPort{{Port: 80}}}.Info(),
		wm.Svc{NS: "ns1", Name: "svc-a", Sel: map[string]string{"app": "a"}, Ports: []wm.SvcPort{{Port: 80}}}.Info(),
		wm.Ing{NS: "ns1", Name: "ing", Default: &wm.Backend{Svc: "svc-a", PortNum: 80}}.Info(),
	}
	switch k {
	case 0:
		return workloads(), nil, surroundNames[k]
	case 1:
		return nil, nil, surroundNames[k]
	case 2:
		return append(svcs, workloads()...), nil, surroundNames[k]
	}
	return workloads(), svcs, surroundNames[k]
}

func eval(cs Case, x *fw.Rec) {
	x.Describe(func() any { return map[string]any{"case": cs.Desc, "manifests": wm.InfoYAML(cs.Infos)} })
	type run struct {
		via string
		err error
		has bool // a report was produced
		fat bool
	}
	var runs []run
	tr, _ := wm.RunList(cs.Infos, false)
	runs = append(runs, run{"list", tr.Err, tr.Err == nil, hasFatal(tr)})
	if cs.Exposure {
		te, _ := wm.RunList(cs.Infos, true)
		runs = append(runs, run{"list --exposure", te.Err, te.Err == nil, hasFatal(te)})
	}
	d1, _ := wm.RunDiff(cs.Infos, cleanRef)
	runs = append(runs, run{"diff (as dir1)", d1.Err, d1.Err == nil && d1.Raw != nil, true})
	d2, _ := wm.RunDiff(cleanRef, cs.Infos)
	runs = append(runs, run{"diff (as dir2)", d2.Err, d2.Err == nil && d2.Raw != nil, true})
	var oc []string
	for _, rn := range runs {
		oc = append(oc, fmt.Sprintf("%s:%v", rn.via, rn.err != nil))
		if cs.Expect == nil { // negative control
			if rn.err != nil {
				x.Fail("negative control rejected via "+rn.via, "", cs.Desc+": "+rn.err.Error())
			}
			continue
		}
		if rn.err == nil {
			x.Fail(fmt.Sprintf("conflict accepted via %s: %s", rn.via, kind(cs.Desc)), "", cs.Desc+": a report was produced instead of an error")
			continue
		}
		for _, e := range cs.Expect {
			if !regexp.MustCompile("(?i)" + e).MatchString(rn.err.Error()) { // names literally, the kind of conflict by a tolerant pattern
				x.Fail(fmt.Sprintf("error does not name the conflict via %s: %s", rn.via, kind(cs.Desc)), "", fmt.Sprintf("%s: expected the message to contain %q, got: %s", cs.Desc, e, rn.err.Error()))
				break
			}
		}
		if rn.via == "list" && !rn.fat {
			x.Fail("conflict error without a fatal entry in Errors(): "+kind(cs.Desc), "", cs.Desc)
		}
	}
	x.Outcome(kind(cs.Desc) + strings.Join(oc, ","))
	x.Nontrivial(cs.Desc)
	x.Sample(map[string]any{"case": cs.Desc, "documents": len(cs.Infos), "expected_error_mentions": cs.Expect})
	x.AddStates(1)
	x.AddTransitions(int64(len(runs)))
}

func hasFatal(tr wm.ToolResult) bool {
	for _, e := range tr.Errors {
		if e.IsFatal() {
			return true
		}
	}
	return false
}

func kind(desc string) string {
	if i := strings.Index(desc, " "); i > 0 {
		return desc[:i]
	}
	return desc
}

// permutation k (0 <= k < n!) of 0..n-1 in lexicographic order (factorial number system) from choices
func permFromChoices(c *fw.Ctx, n int) []int {
	rest := make([]int, n)
	for i := range rest {
		rest[i] = i
	}
	var p []int
	for len(rest) > 0 {
		i := c.Choose(len(rest), "next document")
		p = append(p, rest[i])
		rest = append(rest[:i], rest[i+1:]...)
	}
	return p
}

func baseOrders(n int) (names []string, orders [][]int) {
	asc := make([]int, n)
	for i := range asc {
		asc[i] = i
	}
	for o := 0; o < 8; o++ {
		names = append(names, fmt.Sprintf("order%d", o))
		orders = append(orders, c02.Reorder(asc, o))
	}
	for r := 4; r < n; r += 3 {
		names = append(names, fmt.Sprintf("rot%d", r))
		orders = append(orders, append(append([]int{}, asc[r:]...), asc[:r]...))
	}
	return
}

func Run(r *fw.Run) {
	r.Rule = "every enumerated input order containing exactly one conflict (equal priorities, priority out of 0..1000, duplicate ANP / NetworkPolicy name, second BANP, BANP not named default, pods of one owner with different labels) is run through list, list --exposure (where no admin policy is present), diff as dir1 and as dir2: each must fail with an error naming the conflict; negative controls (same name in another namespace / another owner namespace) must be accepted. One state = one input order; transitions = analyses executed"
	r.Assume = []string{"all n! orders for n<=6 (thorough: n<=8); for n in {12,13,20,33,49,50,51} every ordered position pair (i,j) over >=8 base orders (ascending, descending, rotations, organ-pipe, interleaved, stride), quick tier: n in {12,13,33,50}",
		"other documents around the conflicting pair: 0..12"}
	if r.Quick() {
		r.SetBudget(300 * time.Second)
	} else {
		r.SetBudget(30 * time.Minute)
	}
	cleanRef = workloads()
	maxPerm := 6
	largeN := []int{12, 13, 33, 50}
	if !r.Quick() {
		maxPerm = 8
		largeN = []int{12, 13, 20, 33, 49, 50, 51}
	}
	r.Bounds["all_permutations_up_to_n"] = maxPerm
	r.Bounds["large_n"] = largeN

	// (i) all permutations, one equal-priority pair (elements 0 and 1)
	fw.Explore(r, "equal-priority/all-permutations", fw.Full, func(c *fw.Ctx) Case {
		n := 2 + c.Choose(maxPerm-1, "n")
		infos, after, sn := surroundings(c)
		if n > 5 && sn != surroundNames[0] && sn != surroundNames[1] {
			c.Skip()
		}
		p := permFromChoices(c, n)
		shape := 0
		if n <= 4 {
			shape = c.Choose(3, "conflicting policies: with ingress rules | without any rule | one with ingress rules only, the other with egress rules only")
		}
		ruleless := shape == 1
		for _, i := range p {
			prio := 10 * (i + 1)
			if i == 1 {
				prio = 10
			}
			a := anp(fmt.Sprintf("pol-%02d", i), prio)
			if ruleless && i <= 1 {
				a = bare(a)
			}
			if shape == 2 && i == 1 {
				a.Egress, a.Ingress = a.Ingress, nil // the two directions are evaluated separately: the priorities conflict all the same
			}
			infos = append(infos, wm.InfoANP(a))
		}
		infos = append(infos, after...)
		return Case{Infos: infos, Expect: []string{"pol-00", "pol-01", "priorit"}, Desc: fmt.Sprintf("equal-priority n=%d order=%v surroundings=%s shape=%d", n, p, sn, shape)}
	}, eval)

	// (ii) large n: every position pair over base orders
	fw.Explore(r, "equal-priority/position-pairs", fw.Full, func(c *fw.Ctx) Case {
		n := fw.Pick(c, largeN, "n")
		names, orders := baseOrders(n)
		b := c.Choose(len(orders), "base order")
		if r.Quick() && n >= 50 && b%4 != 1 {
			c.Skip() // quick tier: a quarter of the base orders for the largest n
		}
		i := c.Choose(n, "position i")
		j := c.Choose(n, "position j")
		if i == j {
			c.Skip()
		}
		base := orders[b]
		infos, after, sn := surroundings(c)
		if sn != surroundNames[0] && (n > 13 || b > 1) {
			c.Skip() // the other surroundings with the small n and two base orders
		}
		for pos, v := range base {
			prio := 10 + v
			if pos == j {
				prio = 10 + base[i]
			}
			infos = append(infos, wm.InfoANP(anp(fmt.Sprintf("pol-%02d", pos), prio)))
		}
		infos = append(infos, after...)
		return Case{Infos: infos, Expect: []string{fmt.Sprintf("pol-%02d", i), fmt.Sprintf("pol-%02d", j), "priorit"}, Desc: fmt.Sprintf("equal-priority n=%d base=%s i=%d j=%d surroundings=%s", n, names[b], i, j, sn)}
	}, eval)

	// (iii) priority out of range at every position
	rangeN := []int{1, 2, 3, 5, 8, 12, 13, 21, 33}
	fw.Explore(r, "priority-out-of-range", fw.Full, func(c *fw.Ctx) Case {
		n := fw.Pick(c, rangeN, "n")
		names, orders := baseOrders(n)
		b := c.Choose(len(orders), "base order")
		j := c.Choose(n, "position")
		bad := fw.Pick(c, []int{-1, 1001, -1000, 100000, 1<<32 + 5, 1<<32 + 10 + orders[b][j], -(1 << 32) + 7, 1 << 31, math.MaxInt64, math.MinInt64}, "bad priority (the last six do not fit an int32; two of them wrap to a valid priority, one to a priority another policy has; the last two stand for 2^63 and -1e20, which do not fit an int64 either and are decoded as floating point numbers)")
		infos, after, sn := surroundings(c)
		if sn != surroundNames[0] && (n > 5 || b > 1) {
			c.Skip()
		}
		ruleless := n <= 5 && c.Choose(2, "offending policy: with rules | without any rule") == 1
		for pos, v := range orders[b] {
			prio := 10 + v
			a := anp(fmt.Sprintf("pol-%02d", pos), prio)
			if pos == j {
				a.Prio = bad
				if ruleless {
					a = bare(a)
				}
			}
			inf := wm.InfoANP(a)
			if pos == j && (bad == math.MaxInt64 || bad == math.MinInt64) {
				// what the YAML/JSON decoder makes of an integer that does not fit an int64
				f := map[bool]float64{true: 9223372036854775808, false: -1e20}[bad > 0]
				inf.Object.(*unstructured.Unstructured).Object["spec"].(map[string]interface{})["priority"] = f
			}
			infos = append(infos, inf)
		}
		infos = append(infos, after...)
		expect := []string{fmt.Sprintf("pol-%02d", j), fmt.Sprint(bad), "priorit"}
		if int(int32(bad)) != bad {
			expect = []string{fmt.Sprintf("pol-%02d", j), "priorit"} // the policy and the kind of conflict are named; the number cannot be represented
		}
		return Case{Infos: infos, Expect: expect, Desc: fmt.Sprintf("priority-range n=%d base=%s position=%d value=%d surroundings=%s ruleless=%v", n, names[b], j, bad, sn, ruleless)}
	}, eval)

	// (iv) duplicates among 0..12 other documents at every pair of positions
	others := func(k int) []*resource.Info {
		var res []*resource.Info
		for i := 0; i < k; i++ {
			switch i % 3 {
			case 0:
				res = append(res, wm.InfoANP(anp(fmt.Sprintf("other-%02d", i), 100+i)))
			case 1:
				res = append(res, wm.InfoNP(&wm.NP{NS: "ns1", Name: fmt.Sprintf("np-%02d", i), PodSel: *wm.ML("app", "a"), Ingress: []wm.NPRule{{}}}))
			default:
				res = append(res, wm.InfoWorkload(wm.Workload{Kind: "Deployment", NS: "ns2", Name: fmt.Sprintf("x%02d", i), Labels: map[string]string{"app": "x"}, Replicas: 1}))
			}
		}
		return res
	}
	othersNoAdmin := func(k int) []*resource.Info {
		var res []*resource.Info
		for i := 0; i < k; i++ {
			if i%2 == 0 {
				res = append(res, wm.InfoNP(&wm.NP{NS: "ns1", Name: fmt.Sprintf("np-%02d", i), PodSel: *wm.ML("app", "a"), Ingress: []wm.NPRule{{}}}))
			} else {
				res = append(res, wm.InfoWorkload(wm.Workload{Kind: "Deployment", NS: "ns2", Name: fmt.Sprintf("x%02d", i), Labels: map[string]string{"app": "x"}, Replicas: 1}))
			}
		}
		return res
	}
	insertAt := func(base []*resource.Info, i, j int, a, b *resource.Info) []*resource.Info {
		// a at position i, b at position j (i < j) of the final list
		var res []*resource.Info
		k := 0
		for pos := 0; pos < len(base)+2; pos++ {
			switch pos {
			case i:
				res = append(res, a)
			case j:
				res = append(res, b)
			default:
				res = append(res, base[k])
				k++
			}
		}
		return res
	}
	banp := func() *wm.ANP {
		return &wm.ANP{Name: "default", Subject: wm.APeer{Namespaces: all}, Ingress: []wm.ARule{{Action: "Deny", Peers: []wm.APeer{{Namespaces: all}}, Ports: &[]wm.APort{{Kind: "num", Proto: "TCP", Num: 9}}}}}
	}
	type dup struct {
		name    string
		a, b    func() *resource.Info
		expect  []string
		noAdmin bool
		single  bool // only one conflicting document (b unused)
	}
	npA := func(ns, name string, port int) func() *resource.Info {
		return func() *resource.Info {
			return wm.InfoNP(&wm.NP{NS: ns, Name: name, PodSel: *wm.ML("app", "a"), Ingress: []wm.NPRule{{Ports: []wm.NPPort{{HasPort: true, Num: port}}}}})
		}
	}
	npU := func(ns, name string, port int, uid string) func() *resource.Info {
		return func() *resource.Info {
			return wm.InfoNP(&wm.NP{NS: ns, Name: name, UID: uid, PodSel: *wm.ML("app", "a"), Ingress: []wm.NPRule{{Ports: []wm.NPPort{{HasPort: true, Num: port}}}}})
		}
	}
	dups := []dup{
		{name: "duplicate-anp-name", a: func() *resource.Info { return wm.InfoANP(anp("dup", 1)) }, b: func() *resource.Info { return wm.InfoANP(anp("dup", 2)) }, expect: []string{"dup", `admin.?network.?polic|\banps?\b`}},
		{name: "duplicate-netpol-name", a: npA("ns1", "dupnp", 80), b: npA("ns1", "dupnp", 81), expect: []string{"dupnp", `network.?polic|netpol`}, noAdmin: true},
		{name: "duplicate-netpol-name-default-ns", a: npA("", "dupnp", 80), b: npA("default", "dupnp", 81), expect: []string{"dupnp", `network.?polic|netpol`}, noAdmin: true},
		{name: "duplicate-netpol-name-same-uid", a: npU("ns1", "dupnp", 80, "uid-1"), b: npU("ns1", "dupnp", 81, "uid-1"), expect: []string{"dupnp", `network.?polic|netpol`}, noAdmin: true},
		{name: "duplicate-netpol-name-different-uid", a: npU("ns1", "dupnp", 80, "uid-1"), b: npU("ns1", "dupnp", 81, "uid-2"), expect: []string{"dupnp", `network.?polic|netpol`}, noAdmin: true},
		{name: "control-same-netpol-name-other-namespace", a: npA("ns1", "dupnp", 80), b: npA("ns2", "dupnp", 81), expect: nil, noAdmin: true},
		{name: "duplicate-anp-name-without-rules", a: func() *resource.Info { return wm.InfoANP(bare(anp("dup", 1))) }, b: func() *resource.Info { return wm.InfoANP(bare(anp("dup", 2))) }, expect: []string{"dup", `admin.?network.?polic|\banps?\b`}},
		{name: "duplicate-anp-name-one-without-rules", a: func() *resource.Info { return wm.InfoANP(anp("dup", 1)) }, b: func() *resource.Info { return wm.InfoANP(bare(anp("dup", 2))) }, expect: []string{"dup", `admin.?network.?polic|\banps?\b`}},
		{name: "two-banps-one-without-rules", a: func() *resource.Info { return wm.InfoBANP(banp(), "default") }, b: func() *resource.Info { return wm.InfoBANP(bare(banp()), "default") }, expect: []string{`baseline|\bbanps?\b`}},
		{name: "banp-not-named-default-without-rules", a: func() *resource.Info { return wm.InfoBANP(bare(banp()), "baseline") }, expect: []string{"default"}, single: true},
		{name: "two-banps", a: func() *resource.Info { return wm.InfoBANP(banp(), "default") }, b: func() *resource.Info { return wm.InfoBANP(banp(), "default") }, expect: []string{`baseline|\bbanps?\b`}},
		{name: "banp-not-named-default", a: func() *resource.Info { return wm.InfoBANP(banp(), "baseline") }, expect: []string{"default"}, single: true},
	}
	fw.Explore(r, "duplicates/positions", fw.Full, func(c *fw.Ctx) Case {
		d := dups[c.Choose(len(dups), "conflict kind")]
		k := fw.Pick(c, []int{0, 1, 2, 5, 12}, "other documents")
		before, after, sn := surroundings(c)
		if sn != surroundNames[0] && k > 2 {
			c.Skip()
		}
		var base []*resource.Info
		if d.noAdmin {
			base = append(append(before, othersNoAdmin(k)...), after...)
		} else {
			base = append(append(before, others(k)...), after...)
		}
		if sn == surroundNames[1] {
			// no workload at all: the other documents are policies only
			var pol []*resource.Info
			for _, inf := range base {
				if inf.Object.GetObjectKind().GroupVersionKind().Kind != "Deployment" {
					pol = append(pol, inf)
				}
			}
			base = pol
		}
		if d.single {
			i := c.Choose(len(base)+1, "position")
			infos := append(append(append([]*resource.Info{}, base[:i]...), d.a()), base[i:]...)
			return Case{Infos: infos, Expect: d.expect, Desc: fmt.Sprintf("%s others=%d position=%d surroundings=%s", d.name, k, i, sn)}
		}
		total := len(base) + 2
		i := c.Choose(total, "position of first")
		j := c.Choose(total, "position of second")
		if i >= j {
			c.Skip()
		}
		swap := c.Choose(2, "which of the two comes first")
		a, b := d.a(), d.b()
		if swap == 1 {
			a, b = b, a
		}
		return Case{Infos: insertAt(base, i, j, a, b), Expect: d.expect, Desc: fmt.Sprintf("%s others=%d positions=(%d,%d) swapped=%d surroundings=%s", d.name, k, i, j, swap, sn), Exposure: d.noAdmin}
	}, eval)

	// (v) pods of one owner with differing labels, every order among other pods
	type podv struct {
		name   string
		labels map[string]string
	}
	variants := [][]podv{
		{{"p-a", map[string]string{"app": "a", "tier": "x"}}, {"p-b", map[string]string{"app": "a"}}},                                         // missing key
		{{"p-a", map[string]string{"app": "a"}}, {"p-b", map[string]string{"app": "b"}}},                                                      // different value
		{{"p-a", map[string]string{"app": "a"}}, {"p-b", map[string]string{"app": "a", "extra": "1"}}},                                        // extra key
		{{"p-a", map[string]string{"app": "a"}}, {"p-b", map[string]string{"app": "a"}}, {"p-c", map[string]string{"app": "a", "tier": "x"}}}, // third differs
		{{"p-a", map[string]string{"app": "a"}}, {"p-b", map[string]string{}}},                                                                // no labels at all
		// labels that controllers set per pod are labels too
		{{"p-a", map[string]string{"app": "a", "statefulset.kubernetes.io/pod-name": "p-a"}}, {"p-b", map[string]string{"app": "a", "statefulset.kubernetes.io/pod-name": "p-b"}}},
		{{"p-a", map[string]string{"app": "a", "apps.kubernetes.io/pod-index": "0"}}, {"p-b", map[string]string{"app": "a", "apps.kubernetes.io/pod-index": "1"}}},
		{{"p-a", map[string]string{"app": "a", "batch.kubernetes.io/job-completion-index": "0"}}, {"p-b", map[string]string{"app": "a"}}},
	}
	fw.Explore(r, "owner-labels/orders", fw.Full, func(c *fw.Ctx) Case {
		vi := c.Choose(len(variants)+1, "variant (last = negative control: same owner name in two namespaces)")
		k := fw.Pick(c, []int{0, 1, 3}, "other pods")
		extraOwners := c.Choose(2, "ownerReferences: the controller only | two non-controller references (controller: false, field omitted) listed first")
		var docs []*resource.Info
		var expect []string
		if vi == len(variants) {
			docs = []*resource.Info{wm.InfoPod("ns1", "p-a", "rs1", map[string]string{"app": "a"}, nil), wm.InfoPod("ns2", "p-b", "rs1", map[string]string{"app": "b"}, nil)}
		} else {
			for _, pv := range variants[vi] {
				docs = append(docs, wm.InfoPod("ns1", pv.name, "rs1", pv.labels, nil))
			}
			expect = []string{"rs1", "label"}
		}
		for i := 0; i < k; i++ {
			docs = append(docs, wm.InfoPod("ns1", fmt.Sprintf("other-%d", i), fmt.Sprintf("rs-other-%d", i%2), map[string]string{"app": "o"}, nil))
		}
		if extraOwners == 1 {
			for _, d := range docs {
				wm.AddExtraOwners(d, "rs1")
			}
		}
		infos, after, sn := surroundings(c)
		p := permFromChoices(c, len(docs))
		for _, i := range p {
			infos = append(infos, docs[i])
		}
		infos = append(infos, after...)
		return Case{Infos: infos, Expect: expect, Desc: fmt.Sprintf("owner-labels variant=%d others=%d extra-owners=%d order=%v surroundings=%s", vi, k, extraOwners, p, sn), Exposure: true}
	}, eval)
}
