// Package c02: ANP > NetworkPolicy > BANP precedence, rule order, independence of input order.
package c02

import (
	"fmt"
	"sort"
	"strings"
	"time"

	"github.com/np-guard/netpol-analyzer/pkg/manifests/parser"
	"github.com/np-guard/netpol-analyzer/pkg/netpol/eval"

	"verif/checks/c01"
	"verif/fw"
	"verif/wm"
)

func init() { fw.Register("C02", "exploration", Run) }

func ports(ps ...wm.APort) *[]wm.APort { return &ps }

var (
	all   = &wm.Sel{}
	teamA = wm.ML("team", "a")
	teamB = wm.ML("team", "b")
	appA  = wm.ML("app", "a")
)

var Subjects = []wm.APeer{{Namespaces: all}, {Namespaces: teamA}, {PodsNS: all, PodsPod: appA},
	{Namespaces: &wm.Sel{ML: map[string]string{"team": "a"}, ME: []wm.Req{{Key: wm.NSNameKey, Op: "In", Vals: []string{"ns2"}}}}}} // labels and expressions together: selects nothing
var Peers = []wm.APeer{{Namespaces: all}, {Namespaces: teamB}, {PodsNS: teamA, PodsPod: appA}, {PodsNS: wm.ME("team", "NotIn", "a"), PodsPod: wm.ME("app", "Exists")},
	{PodsNS: all, PodsPod: wm.ME("app", "NotIn", "a")}, // negative only: also matches a pod without labels
	{PodsNS: all, PodsPod: all},                        // a pods peer with two empty selectors: every pod, and still no IP address
	// matchLabels and matchExpressions together: ns1 has the label and fails the expression (selects nothing)
	{Namespaces: &wm.Sel{ML: map[string]string{"team": "a"}, ME: []wm.Req{{Key: wm.NSNameKey, Op: "NotIn", Vals: []string{"ns1"}}}}},
	{PodsNS: all, PodsPod: &wm.Sel{ML: map[string]string{"app": "a"}, ME: []wm.Req{{Key: "app", Op: "NotIn", Vals: []string{"a", "c"}}}}}}
var PortAlpha = []*[]wm.APort{nil,
	ports(wm.APort{Kind: "num", Proto: "TCP", Num: 80}),
	ports(wm.APort{Kind: "range", Proto: "TCP", Num: 80, End: 90}),
	ports(wm.APort{Kind: "range", Num: 85, End: 100}),
	ports(wm.APort{Kind: "named", Name: "http"}),
	ports(wm.APort{Kind: "num", Proto: "UDP", Num: 53}, wm.APort{Kind: "num", Proto: "TCP", Num: 80}),
	ports(wm.APort{Kind: "named", Name: "dns"}, wm.APort{Kind: "range", Proto: "SCTP", Num: 1, End: 65535}),
	// entries without a protocol (default TCP) after entries of another protocol
	ports(wm.APort{Kind: "num", Proto: "UDP", Num: 53}, wm.APort{Kind: "num", Num: 80}),
	ports(wm.APort{Kind: "named", Name: "dns"}, wm.APort{Kind: "range", Num: 85, End: 100}),
	// two separate ports that lie inside the range of another entry of the alphabet (80-90)
	ports(wm.APort{Kind: "num", Proto: "TCP", Num: 82}, wm.APort{Kind: "num", Proto: "TCP", Num: 88}),
	// the list written out empty (ports: []): no port restriction, like the omitted field
	ports(),
	// a range of exactly one port, next to a wider one on another protocol
	ports(wm.APort{Kind: "range", Proto: "TCP", Num: 80, End: 80}, wm.APort{Kind: "range", Proto: "UDP", Num: 53, End: 54}),
	// namedPort: "" names no port at all (w2 has a container port without a name)
	ports(wm.APort{Kind: "named", Name: ""}),
}
var Actions = []string{"Allow", "Deny", "Pass"}

var NPs = [][]wm.NP{nil,
	{{NS: "ns1", Name: "n", PodSel: wm.Sel{}, Types: []string{"Ingress", "Egress"}}},
	{{NS: "ns1", Name: "n", PodSel: wm.Sel{}, Types: []string{"Ingress"}, Ingress: []wm.NPRule{{Ports: []wm.NPPort{{HasPort: true, Num: 80, End: 85}}}}}},
	{{NS: "ns2", Name: "n", PodSel: wm.Sel{}, Types: []string{"Egress"}, Egress: []wm.NPRule{{Peers: []wm.NPPeer{{NSSel: all}}, Ports: []wm.NPPort{{HasPort: true, Name: "http"}, {Proto: "UDP"}}}}}},
	{{NS: "ns1", Name: "n", PodSel: *appA, Ingress: []wm.NPRule{{Peers: []wm.NPPeer{{CIDR: "10.0.0.0/8"}, {NSSel: teamB}}}}}},
}

func mkb(rs ...wm.ARule) *wm.ANP {
	return &wm.ANP{Name: "default", Subject: wm.APeer{Namespaces: all}, Ingress: rs, Egress: rs}
}

var BANPs = []*wm.ANP{nil,
	mkb(wm.ARule{Action: "Deny", Peers: []wm.APeer{{Namespaces: all}}}),
	mkb(wm.ARule{Action: "Deny", Peers: []wm.APeer{{Namespaces: all}}, Ports: PortAlpha[1]}),
	mkb(wm.ARule{Action: "Allow", Peers: []wm.APeer{{Namespaces: all}}, Ports: PortAlpha[2]}, wm.ARule{Action: "Deny", Peers: []wm.APeer{{Namespaces: teamB}}}),
	{Name: "default", Subject: wm.APeer{PodsNS: teamA, PodsPod: appA}, Ingress: []wm.ARule{{Action: "Deny", Peers: []wm.APeer{{PodsNS: all, PodsPod: appA}}, Ports: PortAlpha[4]}}},
}

func Base() *wm.World {
	return &wm.World{
		NSs: []wm.NS{{Name: "ns1", Labels: map[string]string{"team": "a"}, HasObj: true}, {Name: "ns2", Labels: map[string]string{"team": "b"}, HasObj: true}},
		WLs: []wm.Workload{
			{Kind: "Deployment", NS: "ns1", Name: "w1", Labels: map[string]string{"app": "a"}, Ports: []wm.CPort{{Name: "http", Num: 80}, {Name: "dns", Num: 53, Proto: "UDP"}}, Replicas: 1},
			{Kind: "Deployment", NS: "ns1", Name: "w2", Labels: map[string]string{"app": "b"}, Ports: []wm.CPort{{Name: "http", Num: 8080}, {Num: 9090}}, Replicas: 1},
			// same kind and name as the first workload, in another namespace
			{Kind: "Deployment", NS: "ns2", Name: "w1", Labels: map[string]string{"app": "a"}, Ports: []wm.CPort{{Name: "http", Num: 88}}, Replicas: 1},
		}}
}

var perms3 = [][]int{{0, 1, 2}, {0, 2, 1}, {1, 0, 2}, {1, 2, 0}, {2, 0, 1}, {2, 1, 0}}

func Rules() []wm.ARule {
	var rules []wm.ARule
	for _, a := range Actions {
		for _, p := range Peers {
			for _, pt := range PortAlpha {
				rules = append(rules, wm.ARule{Action: a, Peers: []wm.APeer{p}, Ports: pt})
			}
		}
	}
	return rules
}

func Run(r *fw.Run) {
	r.Rule = "worlds = 3 workloads in 2 namespaces with stacks of ANPs / NetworkPolicies / BANP from the alphabets; every leaf of each scope is analysed by the real list and compared exactly (port cells, IP cells) with the pointwise reference of the precedence sentence; non-trivial = an admin policy or NetworkPolicy selects a workload and the relation is neither empty nor complete; distinct = distinct reported relations"
	r.Assume = []string{
		"small-scope bound: <=3 ANPs with <=2 rules per direction, <=1 NetworkPolicy, optional BANP with <=2 rules, priorities from {3,7,11}",
		"every stack of 3 ANPs is presented in all 3! document orders; each order is compared with the order-free reference, hence with each other",
	}
	if r.Quick() {
		r.SetBudget(300 * time.Second)
	} else {
		r.SetBudget(25 * time.Minute)
	}
	r.Bounds["anp_rule_alphabet"] = len(Rules())
	for _, sc := range Scopes(r.Quick()) {
		fw.Explore(r, sc.Name, sc.Mode, sc.Gen, c01.Eval)
	}
	runEngineHistories(r)
}

// runEngineHistories: the same precedence sentence on an engine that is updated object by object: 3-4 ANPs inserted
// with InsertObject in every order, optionally one of them deleted again (with an equal copy), then every pod pair is
// queried with CheckIfAllowed on the cell-boundary ports and compared with the reference on the remaining policies.
func runEngineHistories(r *fw.Run) {
	type hcase struct {
		w     *wm.World // the world after the history (remaining ANPs)
		order []wm.ANP  // insertion order
		del   int       // index into order of the ANP deleted afterwards (-1: none)
		desc  string
	}
	slices := []*[]wm.APort{PortAlpha[1], PortAlpha[2], PortAlpha[3], nil}
	fw.Explore(r, "S-engine-history", fw.Full, func(c *fw.Ctx) hcase {
		n := 3 + c.Choose(2, "number of ANPs")
		pat := c.Choose(6, "action/slice pattern")
		var anps []wm.ANP
		for i := 0; i < n; i++ {
			rl := wm.ARule{Action: Actions[(i+pat)%3], Peers: []wm.APeer{{Namespaces: all}}, Ports: slices[(i*(pat%2+1)+pat/2)%4]}
			// names sort opposite to priorities
			anps = append(anps, wm.ANP{Name: fmt.Sprintf("p%d", n-i), Prio: 10 * (i + 1), Subject: wm.APeer{Namespaces: all}, Ingress: []wm.ARule{rl}, Egress: []wm.ARule{rl}})
		}
		// insertion order: any permutation
		rest := make([]int, n)
		for i := range rest {
			rest[i] = i
		}
		var order []wm.ANP
		var idx []int
		for len(rest) > 0 {
			k := c.Choose(len(rest), "next insert")
			order = append(order, anps[rest[k]])
			idx = append(idx, rest[k])
			rest = append(rest[:k], rest[k+1:]...)
		}
		del := c.Choose(n+1, "delete afterwards (0 = none)") - 1
		w := Base()
		for i, a := range order {
			if i != del {
				w.ANPs = append(w.ANPs, a)
			}
		}
		w.BANP = BANPs[1+pat%2]
		return hcase{w, order, del, fmt.Sprintf("insert priorities %v, delete #%d", idx, del)}
	}, func(cs hcase, x *fw.Rec) {
		w := cs.w
		x.Describe(func() any { return map[string]any{"history": cs.desc, "world_after": w.Brief()} })
		pe := eval.NewPolicyEngine()
		pe.VerifCacheDebug(false)
		base := *w
		base.ANPs, base.BANP = nil, nil
		objs, _ := parser.ResourceInfoListToK8sObjectsList(base.Infos(), wm.Quiet(), true)
		for i := range objs {
			o := objs[i]
			var err error
			switch o.Kind {
			case parser.Namespace:
				err = pe.InsertObject(o.Namespace)
			case parser.Deployment:
				err = pe.InsertObject(o.Deployment)
			}
			if err != nil {
				x.Fail("harness: cannot populate the engine", "", err.Error())
				return
			}
		}
		for _, a := range cs.order {
			a := a
			if err := pe.InsertObject(a.K8s()); err != nil {
				x.Fail("engine rejects an AdminNetworkPolicy", "", cs.desc+": "+err.Error())
				return
			}
		}
		if err := pe.InsertObject(w.BANP.K8sB()); err != nil {
			x.Fail("engine rejects the BaselineAdminNetworkPolicy", "", err.Error())
			return
		}
		if cs.del >= 0 {
			d := cs.order[cs.del]
			if err := pe.DeleteObject(d.K8s()); err != nil {
				x.Fail("engine fails to delete an AdminNetworkPolicy", "", err.Error())
				return
			}
		}
		var verdicts strings.Builder
		cuts := w.PortCuts()
		for si := range w.WLs {
			for di := range w.WLs {
				if si == di {
					continue
				}
				s, d := w.WLs[si].NS+"/"+w.WLs[si].Name+"-1", w.WLs[di].NS+"/"+w.WLs[di].Name+"-1"
				for _, proto := range []string{"TCP", "UDP"} {
					for _, port := range cuts {
						got, err := pe.CheckIfAllowed(s, d, strings.ToLower(proto), fmt.Sprint(port))
						if err != nil {
							x.Fail("CheckIfAllowed fails after an update history", "", fmt.Sprintf("%s: %s -> %s %s/%d: %v", cs.desc, s, d, proto, port, err))
							return
						}
						want := w.Allowed(wm.Peer{WL: si}, wm.Peer{WL: di}, proto, port)
						if got {
							verdicts.WriteByte('1')
						} else {
							verdicts.WriteByte('0')
						}
						if got != want {
							x.Fail(fmt.Sprintf("engine verdict after inserts/deletes differs from the precedence sentence: engine=%v", got), "",
								fmt.Sprintf("%s: %s -> %s %s/%d: engine=%v reference=%v", cs.desc, s, d, proto, port, got, want))
							return
						}
					}
				}
			}
		}
		x.Outcome(verdicts.String())
		x.Nontrivial(cs.desc + w.ANPs[0].String())
	})
}

// Scopes returns the ANP/BANP world scopes.
func Scopes(quick bool) []c01.Scope {
	var scopes []c01.Scope
	add := func(name string, mode fw.Mode, gen func(c *fw.Ctx) *wm.World) {
		scopes = append(scopes, c01.Scope{Name: name, Mode: mode, Gen: gen})
	}
	rules := Rules()

	// S-single: one ANP, two rules (in both orders across the two directions) x subject x NP x BANP
	stride := 1
	if quick {
		stride = 47 // coprime with the size of every dimension of the rule alphabet: rule 2 varies in action, peer and port shape together (the full product is the thorough tier)
	}
	add("S-single", fw.Full, func(c *fw.Ctx) *wm.World {
		s := fw.Pick(c, Subjects, "subject")
		r1 := c.Choose(len(rules), "rule 1")
		r2 := stride * c.Choose((len(rules)+stride-1)/stride, "rule 2")
		nps := NPs
		bs := BANPs
		if quick {
			nps, bs = NPs[:4], BANPs[:4]
		}
		np := fw.Pick(c, nps, "NetworkPolicy")
		b := fw.Pick(c, bs, "BANP")
		w := Base()
		if (r1+r2)%2 == 1 {
			w.WLs[1].Labels = nil // every other world: a workload without labels (negative selectors still match it)
		}
		w.ANPs = []wm.ANP{{Name: "a1", Prio: 7, Subject: s, Ingress: []wm.ARule{rules[r1], rules[r2]}, Egress: []wm.ARule{rules[r2], rules[r1]}}}
		w.NPs, w.BANP = np, b
		return w
	})

	// S-stack: three ANPs with overlapping partial port slices, all action triples, all 3! input orders
	slices := []*[]wm.APort{PortAlpha[1], PortAlpha[2], PortAlpha[3], nil}
	add("S-stack", fw.Full, func(c *fw.Ctx) *wm.World {
		a1, a2, a3 := c.Choose(3, "action@3"), c.Choose(3, "action@7"), c.Choose(3, "action@11")
		s1, s2 := c.Choose(4, "slice@3"), c.Choose(4, "slice@7")
		np := fw.Pick(c, NPs[:3], "NetworkPolicy")
		b := fw.Pick(c, BANPs[:3], "BANP")
		perm := fw.Pick(c, perms3, "document order")
		mk := func(name string, prio int, act string, sl *[]wm.APort) wm.ANP {
			rl := wm.ARule{Action: act, Peers: []wm.APeer{{Namespaces: all}}, Ports: sl}
			return wm.ANP{Name: name, Prio: prio, Subject: wm.APeer{Namespaces: all}, Ingress: []wm.ARule{rl}, Egress: []wm.ARule{rl}}
		}
		three := []wm.ANP{mk("x3", 3, Actions[a1], slices[s1]), mk("x7", 7, Actions[a2], slices[s2]), mk("x11", 11, Actions[a3], slices[(s1+s2+1)%4])}
		w := Base()
		for _, i := range perm {
			w.ANPs = append(w.ANPs, three[i])
		}
		w.NPs, w.BANP = np, b
		return w
	})

	// S-dir: two ANPs whose subjects / peers differ, one ingress-only and one egress-only, priorities swapped vs names
	add("S-dir", fw.Full, func(c *fw.Ctx) *wm.World {
		sa, sb := fw.Pick(c, Subjects, "subject A"), fw.Pick(c, Subjects, "subject B")
		ra := c.Choose(len(rules), "rule A (ingress)")
		rbStride := 3
		if quick {
			rbStride = 59
		}
		rb := rbStride * c.Choose((len(rules)+rbStride-1)/rbStride, "rule B (egress)")
		swap := c.Choose(2, "priorities: A<B | B<A")
		b := fw.Pick(c, BANPs[:2], "BANP")
		w := Base()
		pa, pb := 0, 1000 // both ends of the valid priority range
		if swap == 1 {
			pa, pb = 1000, 0
		}
		deny := wm.ARule{Action: "Deny", Peers: []wm.APeer{{Namespaces: all}}, Ports: PortAlpha[2]}
		w.ANPs = []wm.ANP{
			{Name: "zz-a", Prio: pa, Subject: sa, Ingress: []wm.ARule{rules[ra]}, Egress: []wm.ARule{deny}},
			{Name: "aa-b", Prio: pb, Subject: sb, Egress: []wm.ARule{rules[rb]}, Ingress: []wm.ARule{deny}},
		}
		w.BANP = b
		return w
	})

	// S-many: 5..21 ANPs with distinct priorities (crossing the sort's insertion-sort threshold of 12),
	// presented in several document orders; actions and port slices follow small patterns so that
	// every priority level decides some port cell.
	manySlices := []*[]wm.APort{PortAlpha[1], PortAlpha[2], PortAlpha[3], nil, ports(wm.APort{Kind: "range", Proto: "TCP", Num: 95, End: 120}), ports(wm.APort{Kind: "num", Proto: "UDP", Num: 53})}
	add("S-many", fw.Full, func(c *fw.Ctx) *wm.World {
		n := fw.Pick(c, []int{5, 13, 21}, "number of ANPs")
		order := c.Choose(8, "document order")
		pat := c.Choose(9, "action/slice pattern")
		np := fw.Pick(c, NPs[:3], "NetworkPolicy")
		b := fw.Pick(c, BANPs[:2], "BANP")
		anps := make([]wm.ANP, n)
		for i := 0; i < n; i++ {
			act := Actions[(i*(pat%3+1)+pat/3)%3]
			sl := manySlices[(i*(pat/3+1)+pat)%len(manySlices)]
			if i == n-1 {
				sl = nil
			}
			rl := wm.ARule{Action: act, Peers: []wm.APeer{{Namespaces: all}}, Ports: sl}
			anps[i] = wm.ANP{Name: fmt.Sprintf("p%02d", (i*8)%n), Prio: 10 + 3*i, Subject: wm.APeer{Namespaces: all}, Ingress: []wm.ARule{rl}, Egress: []wm.ARule{rl}}
		}
		w := Base()
		w.ANPs = Reorder(anps, order)
		w.NPs, w.BANP = np, b
		return w
	})

	// S-multipeer: rules whose peer list has two or three entries (a rule matches when any of its peers does - the first, a
	// middle one or the last), in ANPs and in the BANP
	add("S-multipeer", fw.Full, func(c *fw.Ctx) *wm.World {
		p1 := c.Choose(len(Peers), "first peer")
		p2 := c.Choose(len(Peers), "second peer")
		p3 := c.Choose(3, "third peer: none | repeat of the first | namespaces team=b")
		act := fw.Pick(c, Actions, "action")
		pt := fw.Pick(c, []*[]wm.APort{nil, PortAlpha[2], PortAlpha[4], PortAlpha[5]}, "ports")
		where := c.Choose(3, "the rule sits in: an ANP (followed by deny-all at a lower precedence) | an ANP alone | the BANP")
		subj := fw.Pick(c, Subjects[:3], "subject")
		np := fw.Pick(c, NPs[:3], "NetworkPolicy")
		if quick {
			c.Stride(2)
		}
		peers := []wm.APeer{Peers[p1], Peers[p2]}
		switch p3 {
		case 1:
			peers = append(peers, Peers[p1])
		case 2:
			peers = append(peers, wm.APeer{Namespaces: teamB})
		}
		rl := wm.ARule{Action: act, Peers: peers, Ports: pt}
		denyAll := wm.ARule{Action: "Deny", Peers: []wm.APeer{{Namespaces: all}}}
		w := Base()
		switch where {
		case 0:
			w.ANPs = []wm.ANP{{Name: "multi", Prio: 5, Subject: subj, Ingress: []wm.ARule{rl}, Egress: []wm.ARule{rl}},
				{Name: "deny", Prio: 9, Subject: wm.APeer{Namespaces: all}, Ingress: []wm.ARule{denyAll}, Egress: []wm.ARule{denyAll}}}
		case 1:
			w.ANPs = []wm.ANP{{Name: "multi", Prio: 5, Subject: subj, Ingress: []wm.ARule{rl}, Egress: []wm.ARule{rl}}}
		default:
			if act == "Pass" {
				c.Skip() // the BANP has no Pass action
			}
			w.BANP = &wm.ANP{Name: "default", Subject: subj, Ingress: []wm.ARule{rl, denyAll}, Egress: []wm.ARule{rl}}
		}
		w.NPs = np
		return w
	})

	// S-pieces: what one direction allows is assembled from pieces that only together spell every port of every protocol
	// (one ANP per protocol; two ANPs; an ANP and the NetworkPolicy layer; one rule listing three full ranges), while the
	// other direction is restricted: the answer is the restriction, not the pieces
	fullOf := func(protos ...string) *[]wm.APort {
		var ps []wm.APort
		for _, p := range protos {
			ps = append(ps, wm.APort{Kind: "range", Proto: p, Num: 1, End: 65535})
		}
		return &ps
	}
	add("S-pieces", fw.Full, func(c *fw.Ctx) *wm.World {
		layout := c.Choose(5, "pieces: three ANPs | two ANPs | ANP (TCP, UDP) + NetworkPolicy (SCTP) | one rule with three ranges | two ANPs leaving SCTP 1-65534")
		dir := c.Choose(3, "pieces apply to: egress | ingress | both")
		order := fw.Pick(c, perms3, "document order of the ANPs")
		other := c.Choose(4, "other side: ns1 accepts TCP 80-85 | ns1 accepts nothing | ungoverned | ns1 accepts http and all UDP from everyone")
		b := fw.Pick(c, BANPs[:3], "BANP")
		mk := func(name string, prio int, pt *[]wm.APort) wm.ANP {
			rl := wm.ARule{Action: "Allow", Peers: []wm.APeer{{Namespaces: all}}, Ports: pt}
			a := wm.ANP{Name: name, Prio: prio, Subject: wm.APeer{Namespaces: all}}
			if dir != 1 {
				a.Egress = []wm.ARule{rl}
			}
			if dir != 0 {
				a.Ingress = []wm.ARule{rl}
			}
			return a
		}
		w := Base()
		var anps []wm.ANP
		switch layout {
		case 0:
			anps = []wm.ANP{mk("tcp", 3, fullOf("TCP")), mk("udp", 7, fullOf("UDP")), mk("sctp", 11, fullOf("SCTP"))}
		case 1:
			anps = []wm.ANP{mk("tcp-udp", 3, fullOf("TCP", "UDP")), mk("sctp", 7, fullOf("SCTP"))}
		case 2:
			anps = []wm.ANP{mk("tcp-udp", 3, fullOf("TCP", "UDP"))}
			w.NPs = append(w.NPs, wm.NP{NS: "ns2", Name: "sctp", PodSel: wm.Sel{}, Types: []string{"Egress"}, Egress: []wm.NPRule{{Ports: []wm.NPPort{{Proto: "SCTP"}}}}})
		case 3:
			anps = []wm.ANP{mk("all", 3, fullOf("SCTP", "TCP", "UDP"))}
		default:
			anps = []wm.ANP{mk("tcp-udp", 3, fullOf("TCP", "UDP")), mk("sctp", 7, ports(wm.APort{Kind: "range", Proto: "SCTP", Num: 1, End: 65534}))}
		}
		for _, i := range order {
			if i < len(anps) {
				w.ANPs = append(w.ANPs, anps[i])
			}
		}
		switch other {
		case 0:
			w.NPs = append(w.NPs, NPs[2]...)
		case 1:
			w.NPs = append(w.NPs, wm.NP{NS: "ns1", Name: "n", PodSel: wm.Sel{}, Types: []string{"Ingress"}})
		case 3:
			w.NPs = append(w.NPs, wm.NP{NS: "ns1", Name: "n", PodSel: wm.Sel{}, Types: []string{"Ingress"}, Ingress: []wm.NPRule{{Ports: []wm.NPPort{{HasPort: true, Name: "http"}, {Proto: "UDP"}}}}})
		}
		w.BANP = b
		return w
	})

	if !quick {
		// rich seeds, all <=2-deviation variants over the large alphabets
		for s := 0; s < 2; s++ {
			s := s
			add(fmt.Sprintf("S-seed%d-dev2", s), fw.Deviations(2), func(c *fw.Ctx) *wm.World {
				w := Base()
				prios := [][]int{{3, 7, 11}, {11, 3, 7}, {7, 11, 3}}[c.Choose(3, "priority assignment")]
				for i := 0; i < 3; i++ {
					a := wm.ANP{Name: fmt.Sprintf("p%d", i), Prio: prios[i], Subject: Subjects[(i+s+c.Choose(len(Subjects), "subject"))%len(Subjects)]}
					for k := 0; k < 2; k++ {
						a.Ingress = append(a.Ingress, rules[(17*i+29*k+11*s+c.Choose(len(rules), "ingress rule"))%len(rules)])
						a.Egress = append(a.Egress, rules[(13*i+31*k+7*s+5+c.Choose(len(rules), "egress rule"))%len(rules)])
					}
					w.ANPs = append(w.ANPs, a)
				}
				w.NPs = NPs[(1+s+c.Choose(len(NPs), "NetworkPolicy"))%len(NPs)]
				w.BANP = BANPs[(1+s+c.Choose(len(BANPs), "BANP"))%len(BANPs)]
				return w
			})
		}
	}
	// the small scopes run first: should a loaded machine ever make the quick tier meet its deadline, the cut falls on the
	// strided products (whose full versions belong to the thorough tier) and not on a scope that is only complete as a whole
	rank := map[string]int{"S-stack": 0, "S-multipeer": 1, "S-pieces": 2, "S-many": 3, "S-single": 4, "S-dir": 5}
	sort.SliceStable(scopes, func(i, j int) bool {
		ri, oki := rank[scopes[i].Name]
		rj, okj := rank[scopes[j].Name]
		if !oki {
			ri = 9
		}
		if !okj {
			rj = 9
		}
		return ri < rj
	})
	return scopes
}

// Reorder returns xs in one of 8 document orders: ascending, descending, rotations, organ-pipe, interleaved.
func Reorder[T any](xs []T, order int) []T {
	n := len(xs)
	res := make([]T, 0, n)
	switch order {
	case 0:
		res = append(res, xs...)
	case 1:
		for i := n - 1; i >= 0; i-- {
			res = append(res, xs[i])
		}
	case 2, 3, 4:
		k := []int{1, n / 2, n - 1}[order-2]
		res = append(append(res, xs[k:]...), xs[:k]...)
	case 5: // organ pipe: evens ascending then odds descending
		for i := 0; i < n; i += 2 {
			res = append(res, xs[i])
		}
		for i := n - 1; i >= 0; i-- {
			if i%2 == 1 {
				res = append(res, xs[i])
			}
		}
	case 6: // interleave ends
		for i, j := 0, n-1; i <= j; i, j = i+1, j-1 {
			res = append(res, xs[j])
			if i != j {
				res = append(res, xs[i])
			}
		}
	default: // stride 5 permutation (n is coprime with 5 for the n used, otherwise fall back to stride 3)
		st := 5
		if n%5 == 0 {
			st = 3
		}
		for i := 0; i < n; i++ {
			res = append(res, xs[(i*st)%n])
		}
	}
	return res
}
