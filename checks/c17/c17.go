// Package c17: connectivity is per workload, independent of replicas and controller kind.
package c17

import (
	"fmt"
	"sort"
	"strings"
	"time"

	"k8s.io/cli-runtime/pkg/resource"

	"github.com/np-guard/netpol-analyzer/pkg/netpol/connlist"

	"verif/checks/c01"
	"verif/checks/c10"
	"verif/checks/expo"
	"verif/fw"
	"verif/wm"
)

func init() { fw.Register("C17", "exploration", Run) }

const kfShadow = "C17-generated-pod-names-collide"

var all = &wm.Sel{}

func baseWorlds() []*wm.World {
	wls := func() []wm.Workload {
		return []wm.Workload{
			{Kind: "Deployment", NS: "ns1", Name: "w1", Labels: map[string]string{"app": "a"}, Ports: []wm.CPort{{Name: "http", Num: 80}}, Replicas: 1},
			{Kind: "Deployment", NS: "ns1", Name: "w2", Labels: map[string]string{"app": "b"}, Ports: []wm.CPort{{Name: "http", Num: 8080}, {Name: "dns", Num: 53, Proto: "UDP"}}, Replicas: 1},
			{Kind: "Deployment", NS: "ns2", Name: "w1", Labels: map[string]string{"app": "a"}, Replicas: 1},
		}
	}
	nss := []wm.NS{{Name: "ns1", Labels: map[string]string{"team": "a"}, HasObj: true}}
	omit := func() []wm.Workload { // workloads (and the policy) without metadata.namespace: the default namespace by omission
		l := wls()
		l[0].NS, l[1].NS = "", ""
		return l
	}
	return []*wm.World{
		{NSs: nss, WLs: omit(), NPs: []wm.NP{
			{NS: "", Name: "p", PodSel: *wm.ML("app", "b"), Types: []string{"Ingress"}, Ingress: []wm.NPRule{{Peers: []wm.NPPeer{{Pod: wm.ML("app", "a")}}, Ports: []wm.NPPort{{HasPort: true, Num: 8080}}}}}}},
		{NSs: nss, WLs: wls(), NPs: []wm.NP{
			{NS: "ns1", Name: "p", PodSel: *wm.ML("app", "a"), Types: []string{"Ingress", "Egress"},
				Ingress: []wm.NPRule{{Peers: []wm.NPPeer{{Pod: wm.ML("app", "b")}, {CIDR: "10.0.0.0/8"}}, Ports: []wm.NPPort{{HasPort: true, Name: "http"}, {HasPort: true, Name: "mesh"}}}},
				Egress:  []wm.NPRule{{Peers: []wm.NPPeer{{NSSel: all}}, Ports: []wm.NPPort{{HasPort: true, Name: "http"}, {HasPort: true, Num: 53, Proto: "UDP"}}}}}}},
		{NSs: nss, WLs: wls(), NPs: []wm.NP{
			{NS: "ns1", Name: "q", PodSel: *wm.ML("app", "b"), Types: []string{"Ingress"}, Ingress: []wm.NPRule{{Peers: []wm.NPPeer{{NSSel: all, Pod: wm.ML("app", "a")}}, Ports: []wm.NPPort{{HasPort: true, Name: "dns", Proto: "UDP"}, {HasPort: true, Num: 8080}}}}}},
			Svcs: []wm.Svc{{NS: "ns1", Name: "s", Sel: map[string]string{"app": "b"}, Ports: []wm.SvcPort{{Name: "p1", Port: 80, Target: wm.TName("http")}}}},
			Ings: []wm.Ing{{NS: "ns1", Name: "i", Default: &wm.Backend{Svc: "s", PortNum: 80}}}},
		{NSs: nss, WLs: wls(),
			ANPs: []wm.ANP{{Name: "a", Prio: 5, Subject: wm.APeer{PodsNS: all, PodsPod: wm.ML("app", "a")}, Egress: []wm.ARule{{Action: "Deny", Peers: []wm.APeer{{PodsNS: all, PodsPod: wm.ML("app", "b")}}, Ports: &[]wm.APort{{Kind: "named", Name: "http"}}}}}},
			BANP: &wm.ANP{Name: "default", Subject: wm.APeer{Namespaces: wm.ML("team", "a")}, Ingress: []wm.ARule{{Action: "Deny", Peers: []wm.APeer{{Namespaces: wm.ME("team", "DoesNotExist")}}}}}},
		// policies without any pod / namespace selector in their rules (no representative peer is ever generated), the
		// governed workload lives in a namespace that has no Namespace object
		{NSs: nss, WLs: wls(), NPs: []wm.NP{
			{NS: "ns2", Name: "ipb", PodSel: wm.Sel{}, Types: []string{"Ingress", "Egress"},
				Ingress: []wm.NPRule{{Peers: []wm.NPPeer{{CIDR: "10.0.0.0/8"}}, Ports: []wm.NPPort{{HasPort: true, Num: 8080}}}},
				Egress:  []wm.NPRule{{Peers: []wm.NPPeer{{CIDR: "0.0.0.0/0", Except: []string{"10.0.0.0/8"}}}}}}}},
		{WLs: wls()[2:], NPs: []wm.NP{{NS: "ns2", Name: "deny", PodSel: wm.Sel{}, Types: []string{"Ingress"}}}},
		// ipBlocks that are exactly the node / pod addresses the pods get when the workload is expressed as Pods
		{NSs: nss, WLs: wls(), NPs: []wm.NP{{NS: "ns1", Name: "node-addresses", PodSel: wm.Sel{}, Types: []string{"Ingress", "Egress"},
			Ingress: []wm.NPRule{{Peers: []wm.NPPeer{{CIDR: wm.PodHostIP(0) + "/32"}, {CIDR: wm.PodIP(1) + "/32"}}, Ports: []wm.NPPort{{HasPort: true, Num: 80}}}},
			Egress:  []wm.NPRule{{Peers: []wm.NPPeer{{CIDR: wm.PodHostIP(1) + "/32"}, {CIDR: "127.0.0.1/32"}}, Ports: []wm.NPPort{{HasPort: true, Num: 53, Proto: "UDP"}}}}}}},
		// a rule selector that a real workload matches exactly (its representative peer is removed when that workload is inserted)
		{WLs: wls(), NPs: []wm.NP{{NS: "ns1", Name: "m", PodSel: *wm.ML("app", "b"), Types: []string{"Ingress"}, Ingress: []wm.NPRule{{Peers: []wm.NPPeer{{Pod: wm.ML("app", "a")}}}}}}},
	}
}

type Case struct {
	Borrowed bool // world of another check's scope: the other workloads keep their own kind and replicas
	Order    int  // 0: workloads first, 1: workloads last, 2: the re-expressed workload last, 3: reversed workloads first
	Base     *wm.World
	WI       int
	Kind     string
	Repl     int
	Kinds    []string // all workloads re-expressed at once (nil = only WI)
	Repls    []int
	Desc     string
	Shadow   *shadowCase
}

type shadowItem struct {
	kind, name string
	repl       int
	label      string // value of the app label ("" = a)
}
type shadowCase struct{ items []shadowItem }

func withoutWorkloads(w *wm.World) *wm.World {
	c := *w
	c.WLs = nil
	return &c
}

func norm(m map[string]string, ren map[string]string) string {
	var ks []string
	for k, v := range m {
		for a, b := range ren {
			k = strings.ReplaceAll(k, a, b)
		}
		ks = append(ks, k+"="+v)
	}
	sort.Strings(ks)
	return strings.Join(ks, "\n")
}

func workloadPeers(tr wm.ToolResult) []string {
	var res []string
	for _, p := range tr.RawPeers {
		if !p.IsPeerIPType() {
			res = append(res, p.String())
		}
	}
	sort.Strings(res)
	return res
}

func eval(cs Case, x *fw.Rec) {
	if cs.Shadow != nil {
		evalShadow(cs, x)
		return
	}
	base := cs.Base
	baseRes, _ := wm.RunList(base.Infos(), false)
	if baseRes.Err != nil {
		if cs.Borrowed && wm.IsNamedPortOnIPErr(baseRes.Err) {
			x.Count("skipped_documented_named_port_error", 1)
			return
		}
		x.Fail("harness: base world does not list", "", baseRes.Err.Error())
		return
	}
	infos := withoutWorkloads(base).Infos()
	var expInfos []*resource.Info
	ren := map[string]string{}
	var wantPeers []string
	for i, wl := range base.WLs {
		k, rp := "Deployment", 1
		if cs.Borrowed {
			k, rp = wl.Kind, wl.Replicas
		}
		if cs.Kinds != nil {
			k, rp = cs.Kinds[i], cs.Repls[i]
		} else if i == cs.WI {
			k, rp = cs.Kind, cs.Repl
		}
		expInfos = append(expInfos, wm.Express(wl, k, rp)...)
		ns := wl.NS
		if ns == "" {
			ns = "default"
		}
		nw := ns + "/" + wl.Name + "[" + wm.ExpressedKind(k) + "]"
		ren[nw] = ns + "/" + wl.Name + "[" + wl.Kind + "]"
		wantPeers = append(wantPeers, nw)
	}
	switch cs.Order {
	case 0:
		infos = append(expInfos, infos...)
	case 1:
		infos = append(infos, expInfos...)
	case 2:
		var first, last []*resource.Info
		for i, wl := range base.WLs {
			k, rp := "Deployment", 1
			if cs.Borrowed {
				k, rp = wl.Kind, wl.Replicas
			}
			if cs.Kinds != nil {
				k, rp = cs.Kinds[i], cs.Repls[i]
			} else if i == cs.WI {
				k, rp = cs.Kind, cs.Repl
			}
			if i == cs.WI {
				last = wm.Express(wl, k, rp)
			} else {
				first = append(first, wm.Express(wl, k, rp)...)
			}
		}
		infos = append(append(first, infos...), last...)
	default:
		var rev []*resource.Info
		for i := len(expInfos) - 1; i >= 0; i-- {
			rev = append(rev, expInfos[i])
		}
		infos = append(rev, infos...)
	}
	x.Describe(func() any { return map[string]any{"case": cs.Desc, "manifests": wm.InfoYAML(infos)} })
	tr, _ := wm.RunList(infos, false)
	if tr.Err != nil {
		x.Fail("re-expressed workload makes list fail: "+kindsOf(cs), "", cs.Desc+": "+tr.Err.Error())
		return
	}
	for _, b := range tr.WF {
		x.Fail("result not well-formed (C05 invariant): "+b, "", strings.Join(tr.WF, "\n"))
	}
	got := norm(tr.Conns, ren)
	want := norm(baseRes.Conns, nil)
	x.Outcome(got)
	if got != want {
		x.Fail(fmt.Sprintf("report changes when a workload is expressed as %s", kindsOf(cs)), "", fmt.Sprintf("%s\n--- base report\n%s\n--- report after re-expression (peer renamed back)\n%s", cs.Desc, want, got))
	}
	sort.Strings(wantPeers)
	if gp := workloadPeers(tr); strings.Join(gp, ",") != strings.Join(wantPeers, ",") {
		x.Fail("peer list is not one peer per input workload", "", fmt.Sprintf("%s: peers %v, expected %v", cs.Desc, gp, wantPeers))
	}
	x.Nontrivial(cs.Desc)
	x.Sample(map[string]any{"case": cs.Desc, "peers": workloadPeers(tr)})
	if len(base.ANPs) > 0 || base.BANP != nil {
		return // exposure analysis refuses admin policies
	}
	// the same with exposure analysis: the whole txt report (connections and exposure sections) modulo the [Kind] suffix
	wantX, errB := expoReport(base.Infos(), nil)
	gotX, errX := expoReport(infos, ren)
	if errB != nil {
		if !wm.IsNamedPortOnIPErr(errB) {
			x.Fail("list --exposure fails on a world that plain list analyses", "", cs.Desc+": "+errB.Error())
		}
		return
	}
	if errX != nil {
		x.Fail("re-expressed workload makes list --exposure fail: "+kindsOf(cs), "", cs.Desc+": "+errX.Error())
		return
	}
	if gotX != wantX {
		x.Fail(fmt.Sprintf("exposure report changes when a workload is expressed as %s", kindsOf(cs)), "", fmt.Sprintf("%s\n--- base report\n%s\n--- report after re-expression (peer renamed back)\n%s", cs.Desc, wantX, gotX))
	}
	x.Count("exposure_reports_compared", 1)
}

// expoReport: the txt output of list --exposure as a sorted multiset of lines with peers renamed and padding removed.
func expoReport(infos []*resource.Info, ren map[string]string) (string, error) {
	ca := connlist.NewConnlistAnalyzer(connlist.WithLogger(wm.Quiet()), connlist.WithMuteErrsAndWarns(), connlist.WithExposureAnalysis())
	conns, _, err := ca.ConnlistFromResourceInfos(infos)
	if err != nil {
		return "", err
	}
	out, err := ca.ConnectionsListToString(conns)
	if err != nil {
		return "", err
	}
	var lines []string
	for _, l := range strings.Split(out, "\n") {
		for a, b := range ren {
			l = strings.ReplaceAll(l, a, b)
		}
		lines = append(lines, strings.Join(strings.Fields(l), " "))
	}
	sort.Strings(lines)
	return strings.Join(lines, "\n"), nil
}

func kindsOf(cs Case) string {
	if cs.Kinds != nil {
		ks := map[string]bool{}
		for _, k := range cs.Kinds {
			if k != "Deployment" {
				ks[k] = true
			}
		}
		var l []string
		for k := range ks {
			l = append(l, k)
		}
		sort.Strings(l)
		return strings.Join(l, "+")
	}
	return cs.Kind
}

// podNames: the pod names the tool generates for a workload (at most two replicas are materialised).
func podNames(it shadowItem) []string {
	switch it.kind {
	case "PodBare":
		return []string{it.name}
	case "Pods":
		n := it.repl
		if n < 1 {
			n = 1
		}
		var r []string
		for i := 0; i < n; i++ {
			r = append(r, fmt.Sprintf("%s-pod%d", it.name, i))
		}
		return r
	}
	if it.repl > 1 && it.kind != "DaemonSet" && it.kind != "CronJob" {
		return []string{it.name + "-1", it.name + "-2"}
	}
	return []string{it.name + "-1"}
}

func peerOf(it shadowItem) string {
	if it.kind == "PodBare" {
		return "ns1/" + it.name + "[Pod]"
	}
	return "ns1/" + it.name + "[" + wm.ExpressedKind(it.kind) + "]"
}

func evalShadow(cs Case, x *fw.Rec) {
	var infos []*resource.Info
	var want []string
	owner := map[string]int{} // pod name -> index of the workload owning it last (document order)
	for i, it := range cs.Shadow.items {
		wl := wm.Workload{NS: "ns1", Name: it.name, Labels: map[string]string{"app": "a"}}
		if it.label != "" {
			wl.Labels = map[string]string{"app": it.label}
		}
		if it.kind == "PodBare" {
			infos = append(infos, wm.InfoPod("ns1", it.name, "", wl.Labels, nil))
		} else {
			infos = append(infos, wm.Express(wl, it.kind, it.repl)...)
		}
		want = append(want, peerOf(it))
		for _, pn := range podNames(it) {
			owner[pn] = i
		}
	}
	sort.Strings(want)
	x.Describe(func() any { return map[string]any{"case": cs.Desc, "manifests": wm.InfoYAML(infos)} })
	tr, _ := wm.RunList(infos, false)
	x.Outcome(tr.OutcomeKey())
	x.Nontrivial(cs.Desc)
	if tr.Err != nil {
		x.Fail("distinct workloads make list fail", "", cs.Desc+": "+tr.Err.Error())
		return
	}
	got := workloadPeers(tr)
	for k := range tr.Conns {
		p := strings.SplitN(k, "|", 2)
		if p[0] == p[1] {
			x.Fail("a workload is listed as connecting to itself", "", cs.Desc+": "+k)
		}
	}
	if strings.Join(got, ",") == strings.Join(want, ",") {
		// every workload present: the relation must be complete between them (no policies)
		n := len(want)
		if len(tr.Conns) != n*(n-1)+2*n*len(tr.IPs) {
			x.Fail("distinct workloads: relation incomplete", "", fmt.Sprintf("%s: %d entries", cs.Desc, len(tr.Conns)))
		}
		return
	}
	// defect model of the recorded finding: pods are keyed by generated pod name; a workload all of whose
	// generated pod names are taken over by a later document disappears
	surv := map[string]bool{}
	for _, i := range owner {
		surv[peerOf(cs.Shadow.items[i])] = true
	}
	var model []string
	for p := range surv {
		model = append(model, p)
	}
	sort.Strings(model)
	known := ""
	if strings.Join(model, ",") == strings.Join(got, ",") && len(tr.Conns) == len(got)*(len(got)-1)+2*len(got)*len(tr.IPs) {
		known = kfShadow
	}
	x.Fail("distinct workloads shadow each other (peer missing from the report)", known, fmt.Sprintf("%s: peers %v, expected %v", cs.Desc, got, want))
}

func Run(r *fw.Run) {
	r.Rule = "8 base worlds (ipBlocks equal to single pod / node addresses; label + named-port policies; Service + Ingress; ANP + BANP; ipBlock-only and deny-all policies on a workload whose namespace has no Namespace object; a rule selector matched exactly by a real workload) x 4 document orders x each workload x every re-expression: kind in {Deployment, ReplicaSet, StatefulSet, DaemonSet, Job, CronJob, ReplicationController, bare Pods with one controller ownerReference} x replicas/parallelism in {absent,0,1,2,3}; workload-level labels and selectors differ from the pod-template labels; the report must equal the base report modulo the [Kind] suffix, with exactly one peer per workload, and (worlds without admin policies) the txt report of list --exposure must be the same multiset of lines modulo the suffix; plus worlds of distinct workloads whose generated pod names could coincide (every ordered pair of 8 items, replicas 1..2); non-trivial/distinct = each re-expression"
	r.Assume = []string{"others workloads of the world stay Deployments with 1 replica while one is re-expressed"}
	if r.Quick() {
		r.SetBudget(300 * time.Second)
	} else {
		r.SetBudget(20 * time.Minute)
	}
	bases := baseWorlds()
	fw.Explore(r, "re-expression", fw.Full, func(c *fw.Ctx) Case {
		bi := c.Choose(len(bases), "base world")
		wi := c.Choose(len(bases[bi].WLs), "workload")
		k := fw.Pick(c, wm.ExpressKinds, "kind")
		rp := fw.Pick(c, []int{-1, 0, 1, 2, 3}, "replicas")
		ord := c.Choose(4, "document order")
		return Case{Base: bases[bi], WI: wi, Kind: k, Repl: rp, Order: ord, Desc: fmt.Sprintf("base=%d workload=%s as %s replicas=%d order=%d", bi, bases[bi].WLs[wi].PeerString(), k, rp, ord)}
	}, eval)
	fw.Explore(r, "re-expression-all", fw.Full, func(c *fw.Ctx) Case {
		bi := c.Choose(len(bases), "base world")
		var ks []string
		var rs []int
		pat := c.Choose(3, "replica pattern")
		for i := range bases[bi].WLs {
			ks = append(ks, fw.Pick(c, wm.ExpressKinds, "kind"))
			rs = append(rs, []int{-1, 0, 1, 2, 3}[(i+2*pat+1)%5])
		}
		ord := []int{0, 1, 3}[c.Choose(3, "document order")]
		return Case{Base: bases[bi], Kinds: ks, Repls: rs, Order: ord, WI: -1, Desc: fmt.Sprintf("base=%d kinds=%v replicas=%v order=%d", bi, ks, rs, ord)}
	}, eval)
	// worlds of the other alphabets (NetworkPolicy shapes, exposure selectors, Service / Ingress / Route): each of their
	// workloads re-expressed as every kind; the thorough tier takes far more of them
	type src struct {
		name   string
		gen    func(*fw.Ctx) *wm.World
		stride int
	}
	var srcs []src
	for _, sc := range c01.Scopes(true) {
		if sc.Name == "S-sel-ip" || sc.Name == "S-ports" || sc.Name == "S-twins" {
			srcs = append(srcs, src{"borrowed/c01-" + sc.Name, sc.Gen, map[string]int{"S-sel-ip": 800, "S-ports": 300, "S-twins": 400}[sc.Name]})
		}
	}
	for _, sc := range expo.Scopes(true) {
		srcs = append(srcs, src{"borrowed/expo-" + sc.Name, sc.Gen, map[string]int{"shared-policy": 60, "one-policy/two-rules": 3000, "two-policies": 9000}[sc.Name]})
	}
	srcs = append(srcs, src{"borrowed/c10-ingress", c10.GenIngress, 20000}, src{"borrowed/c10-route", c10.GenRoute, 30000})
	for _, sc := range srcs {
		sc := sc
		st := sc.stride
		if !r.Quick() {
			st = (st + 39) / 40
		}
		fw.Explore(r, sc.name, fw.Full, func(c *fw.Ctx) Case {
			w := sc.gen(c)
			c.Stride(st)
			wi := c.Choose(len(w.WLs), "workload")
			k := fw.Pick(c, wm.ExpressKinds, "kind")
			rp := fw.Pick(c, []int{-1, 2}, "replicas")
			if w.WLs[wi].Kind == k && rp == w.WLs[wi].Replicas {
				c.Skip()
			}
			return Case{Base: w, WI: wi, Kind: k, Repl: rp, Order: wi % 4, Borrowed: true, Desc: fmt.Sprintf("%s workload=%s as %s replicas=%d", sc.name, w.WLs[wi].PeerString(), k, rp)}
		}, eval)
	}
	items := []shadowItem{{kind: "Deployment", name: "a", repl: 1}, {kind: "StatefulSet", name: "a", repl: 1}, {kind: "PodBare", name: "a-1", repl: 1}, {kind: "Deployment", name: "a-1", repl: 1}, {kind: "Pods", name: "a", repl: 1}, {kind: "Job", name: "a", repl: 1}, {kind: "CronJob", name: "a", repl: 1}, {kind: "DaemonSet", name: "a", repl: 1}, {kind: "PodBare", name: "a-pod0", repl: 1}, {kind: "ReplicaSet", name: "a", repl: 1}}
	fw.Explore(r, "distinct-workloads", fw.Full, func(c *fw.Ctx) Case {
		i := c.Choose(len(items), "first")
		j := c.Choose(len(items), "second")
		ri, rj := 1+c.Choose(2, "replicas of first"), 1+c.Choose(2, "replicas of second")
		a, b := items[i], items[j]
		a.repl, b.repl = ri, rj
		if c.Choose(2, "pod labels of the second: the same | different") == 1 {
			b.label = "b"
		}
		if peerOf(a) == peerOf(b) {
			c.Skip() // the same workload twice is not "distinct workloads"
		}
		return Case{Shadow: &shadowCase{[]shadowItem{a, b}}, Desc: fmt.Sprintf("distinct workloads %s(replicas %d) then %s(replicas %d, app=%s)", peerOf(a), ri, peerOf(b), rj, map[bool]string{true: "a", false: b.label}[b.label == ""])}
	}, eval)
}
