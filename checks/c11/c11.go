// Package c11: ConnectionSet / PortSet form a correct, canonical set algebra.
// Explicit-state breadth-first search over the real methods (the search itself lives in the
// overlay bridge package because pkg/netpol/internal/common is internal; see overlay/bridge/c11.go.src).
package c11

import (
	"encoding/json"
	"fmt"
	"strings"
	"time"

	"github.com/np-guard/netpol-analyzer/pkg/netpol/zzverif"

	"verif/fw"
)

func init() { fw.Register("C11", "model_checking", Run) }

const kfSpelled = "C11-full-set-spelled-as-three-ranges"

// known classifies a failure: the recorded finding covers only the canonical-form clauses
// (recognition / Equal / String) on cases that involve the three-full-ranges representation.
func known(f zzverif.C11Failure) string {
	if !f.SpelledModel {
		return ""
	}
	for _, c := range []string{"full set not recognised", "Equal disagrees with the denotation", "String disagrees with the denotation", "ContainedIn disagrees with the denotation"} {
		if strings.Contains(f.Class, c) {
			return kfSpelled
		}
	}
	return ""
}

func Run(r *fw.Run) {
	r.Rule = "states = ConnectionSet values (full representation: AllowAll flag, per protocol interval list, named and excluded named ports) reached by AddConnection steps and by Union/Intersection/Subtract with every reached state as operand; every transition and every ordered pair of selected states is checked against a bitset model over 3 protocols x 6 port cells"
	r.Assume = []string{
		"port cells are cut at the constants of the alphabet {1,79,80,81,82,65535}; every reached interval set is constant on the cells (asserted)",
		"denotational claims are made for numeric-only histories; named ports only through the clauses the statement makes (containment clause, non-aliasing of the name maps, numeric part of Union)",
		"canonical-form claims are asserted on results of Union/Intersection/Subtract; sets built by AddConnection alone serve as operands",
	}
	if r.Replaying() {
		fs, err := zzverif.C11Replay(r.ReplayData)
		if err != nil {
			r.HarnessError("replay: %v", err)
			return
		}
		var out []fw.Failure
		for _, f := range fs {
			out = append(out, fw.Failure{Class: f.Class, Known: known(f), Detail: f.Detail})
		}
		r.ReplayReport(out)
		return
	}
	cfgs := []zzverif.C11Config{{GenDepth: 2, OpDepth: 1, PairOps: 1}, {GenDepth: 3, OpDepth: 1, PairOps: 0}}
	if !r.Quick() {
		cfgs = []zzverif.C11Config{{GenDepth: 2, OpDepth: 2, Layer2Cap: 300, PairOps: 1}, {GenDepth: 3, OpDepth: 1, PairOps: 0}, {GenDepth: 3, OpDepth: 2, Layer2Cap: 40, PairOps: 0}}
	}
	r.Bounds["searches(generator_depth,operation_depth,layer2_operand_cap,pair_predicates_for_states_with_ops<=)"] = cfgs
	for ci, cfg := range cfgs {
		search(r, ci, cfg)
	}
}

func search(r *fw.Run, ci int, cfg zzverif.C11Config) {
	scope := fmt.Sprintf("bfs-gen%d-op%d", cfg.GenDepth, cfg.OpDepth)
	t0 := time.Now()
	res := zzverif.C11Search(cfg)
	x := r.NewRec()
	x.AddStates(int64(res.States))
	x.AddTransitions(res.Transitions)
	x.Count("ordered_pairs_checked", res.Pairs)
	x.Count("single_state_checks", res.Singles)
	x.Count("generator_states", int64(res.GeneratorStates))
	x.Count("distinct_denotations", int64(res.DistinctDenot))
	r.Direct(scope, 0, x)
	for i, f := range res.Failures {
		y := r.NewRec()
		y.Fail(f.Class, known(f), f.Detail+fmt.Sprintf("\n(%d occurrences in this run)", res.FailureCounts[f.Class]))
		raw := f.Replay
		y.Describe(func() any { return json.RawMessage(raw) })
		r.Direct(scope, int64(i+1), y)
	}
	if ci == 0 {
		r.Extra["samples"] = toAny(res.Samples)
	}
	r.AddScope(&fw.ScopeStat{Name: scope, Mode: "explicit-state BFS", Leaves: res.Transitions, Complete: true, Outcomes: res.DistinctDenot, Nontrivial: res.States,
		WallS: time.Since(t0).Seconds(), Note: fmt.Sprintf("states=%d transitions=%d pairs=%d layers=%v", res.States, res.Transitions, res.Pairs, res.LayerSizes)})
}

func toAny(s []string) []any {
	var r []any
	for _, x := range s {
		r = append(r, x)
	}
	return r
}
