// Package c10: {ingress-controller} lines follow Ingress/Route -> Service -> workload + policies.
package c10

import (
	"fmt"
	"strings"
	"time"

	"verif/fw"
	"verif/wm"
)

func init() { fw.Register("C10", "exploration", Run) }

const kfTargetPort = "C10-ingress-backend-number-matches-targetport"
const kfReservedNS = "C10-egress-policies-of-namespace-ingress-controller-ns-apply-to-the-ingress-controller"

var cportAlpha = [][]wm.CPort{
	{{Name: "http", Num: 80}, {Num: 8080, Proto: "TCP"}},
	{{Name: "http", Num: 8080}, {Name: "dns", Num: 53, Proto: "UDP"}},
	{{Num: 9090}, {Num: 80, Proto: "UDP"}},
	{{Name: "http", Num: 80, Proto: "UDP"}, {Name: "web", Num: 8080}, {Num: 53, Proto: "UDP"}},
	// one number under two protocols: the name "dns" is UDP, another TCP port has the same number
	{{Name: "dns", Num: 53, Proto: "UDP"}, {Name: "dns-tcp", Num: 53}, {Name: "http", Num: 8080}},
}

var targets = []wm.Target{{}, wm.TNum(8080), wm.TNum(9090), wm.TName("http"), wm.TName("dns"), wm.TName("nosuch"), wm.TNum(80), wm.TNum(53)}

func svcPortSets() [][]wm.SvcPort {
	var res [][]wm.SvcPort
	for _, t1 := range targets {
		res = append(res, []wm.SvcPort{{Name: "p1", Port: 80, Target: t1}})
		for _, t2 := range targets[:4] {
			res = append(res, []wm.SvcPort{{Name: "p1", Port: 80, Target: t1}, {Name: "p2", Port: 8080, Target: t2}})
		}
	}
	// service ports of another protocol: alone, and sharing the number with a TCP port listed after it
	res = append(res, []wm.SvcPort{{Name: "p1", Port: 53, Proto: "UDP"}}, []wm.SvcPort{{Name: "p1", Port: 80, Proto: "UDP", Target: wm.TNum(9090)}, {Name: "p2", Port: 80, Target: wm.TNum(8080)}},
		[]wm.SvcPort{{Name: "p1", Port: 80, Target: wm.TNum(8080)}, {Name: "p2", Port: 8080, Proto: "SCTP", Target: wm.TNum(9090)}})
	res = append(res, []wm.SvcPort{{Port: 53}}, []wm.SvcPort{{Name: "p1", Port: 80, Target: wm.TNum(8080)}, {Name: "p2", Port: 8080, Target: wm.TNum(80)}},
		[]wm.SvcPort{{Name: "p1", Port: 80, Target: wm.TNum(8080)}, {Name: "p2", Port: 8080, Target: wm.TNum(9090)}})
	return res
}

var backends = []wm.Backend{{Svc: "s", PortNum: 80}, {Svc: "s", PortNum: 8080}, {Svc: "s", PortNum: 9999}, {Svc: "s", PortName: "p1"}, {Svc: "s", PortName: "p2"}, {Svc: "s", PortName: "nosuch"}, {Svc: "missing", PortNum: 80}, {Svc: "s", PortNum: 53}, {Svc: "s2", PortNum: 80},
	{Svc: "s", PortName: "http"}} // a port NAME that is also the named targetPort of a service port with another name
var rtargets = []wm.Target{{}, wm.TName("p1"), wm.TName("p2"), wm.TName("zz"), wm.TNum(80), wm.TNum(8080), wm.TNum(9090)}
var sels = []map[string]string{{"app": "a"}, {"app": "b"}, {"app": "a", "tier": "x"}, nil, {"app": "zz"}, {}} // the last one: selector: {} written out

var all = &wm.Sel{}

type polv struct {
	nps  []wm.NP
	anps []wm.ANP
	banp *wm.ANP
}

var policies = []polv{
	{},
	{nps: []wm.NP{{NS: "ns1", Name: "deny", PodSel: wm.Sel{}, Types: []string{"Ingress"}}}},
	{nps: []wm.NP{{NS: "ns1", Name: "a8080", PodSel: wm.Sel{}, Types: []string{"Ingress"}, Ingress: []wm.NPRule{{Peers: []wm.NPPeer{{NSSel: all}}, Ports: []wm.NPPort{{HasPort: true, Num: 8080}}}}}}},
	{nps: []wm.NP{{NS: "ns1", Name: "team", PodSel: wm.Sel{}, Types: []string{"Ingress"}, Ingress: []wm.NPRule{{Peers: []wm.NPPeer{{NSSel: wm.ML("team", "a")}}}}}}},
	{nps: []wm.NP{{NS: "ns1", Name: "w1only", PodSel: *wm.ML("app", "a"), Types: []string{"Ingress"}, Ingress: []wm.NPRule{{Peers: []wm.NPPeer{{NSSel: all}}, Ports: []wm.NPPort{{HasPort: true, Name: "http"}}}}}}},
	{nps: []wm.NP{{NS: "ns1", Name: "labeled", PodSel: wm.Sel{}, Types: []string{"Ingress"}, Ingress: []wm.NPRule{{Peers: []wm.NPPeer{{NSSel: all, Pod: wm.ME("app", "Exists")}}}}}}},
	{anps: []wm.ANP{{Name: "a", Prio: 5, Subject: wm.APeer{Namespaces: wm.ML("team", "a")}, Ingress: []wm.ARule{{Action: "Deny", Peers: []wm.APeer{{Namespaces: all}}, Ports: &[]wm.APort{{Kind: "num", Proto: "TCP", Num: 80}}}}}}},
	{banp: &wm.ANP{Name: "default", Subject: wm.APeer{Namespaces: all}, Ingress: []wm.ARule{{Action: "Deny", Peers: []wm.APeer{{Namespaces: wm.ML("team", "a")}}}}}},
	// selectors made only of negative expressions: an unlabeled pod satisfies them
	// the {ingress-controller} is the only possible source of any connection: everything else is denied in both directions
	{nps: []wm.NP{{NS: "ns1", Name: "deny-all", PodSel: wm.Sel{}, Types: []string{"Ingress", "Egress"}}, {NS: "ns2", Name: "deny-all", PodSel: wm.Sel{}, Types: []string{"Ingress", "Egress"}},
		{NS: "ns1", Name: "from-any-namespace", PodSel: wm.Sel{}, Types: []string{"Ingress"}, Ingress: []wm.NPRule{{Peers: []wm.NPPeer{{NSSel: all}}, Ports: []wm.NPPort{{HasPort: true, Num: 8080}, {HasPort: true, Num: 53}}}}}}},
	// policies in the namespace whose name the tool reserves for its {ingress-controller} pod (no Namespace object, no workload there)
	{nps: []wm.NP{{NS: "ingress-controller-ns", Name: "ic-egress-anywhere", PodSel: wm.Sel{}, Types: []string{"Egress"}, Egress: []wm.NPRule{{}}},
		{NS: "ingress-controller-ns", Name: "ic-ingress-deny", PodSel: wm.Sel{}, Types: []string{"Ingress"}}}},
	{nps: []wm.NP{{NS: "ingress-controller-ns", Name: "ic-egress-deny", PodSel: wm.Sel{}, Types: []string{"Egress"}}}},
	// admin policies with egress rules whose subject also covers an unlabeled pod of a namespace unknown to the input: what
	// such a pod may send into W is cut by them (there is no NetworkPolicy layer for that pod)
	{anps: []wm.ANP{{Name: "eg", Prio: 5, Subject: wm.APeer{Namespaces: all}, Egress: []wm.ARule{{Action: "Deny", Peers: []wm.APeer{{Namespaces: wm.ML("team", "a")}}, Ports: &[]wm.APort{{Kind: "num", Proto: "TCP", Num: 8080}}}}}}},
	{anps: []wm.ANP{{Name: "eg-notin", Prio: 5, Subject: wm.APeer{PodsNS: wm.ME("team", "NotIn", "a", "b"), PodsPod: all}, Egress: []wm.ARule{{Action: "Deny", Peers: []wm.APeer{{PodsNS: all, PodsPod: wm.ML("app", "a")}}}}},
		{Name: "eg-team-b", Prio: 3, Subject: wm.APeer{Namespaces: wm.ML("team", "b")}, Egress: []wm.ARule{{Action: "Deny", Peers: []wm.APeer{{Namespaces: all}}}}}}},
	{banp: &wm.ANP{Name: "default", Subject: wm.APeer{Namespaces: all}, Egress: []wm.ARule{{Action: "Allow", Peers: []wm.APeer{{Namespaces: all}}, Ports: &[]wm.APort{{Kind: "num", Proto: "TCP", Num: 80}}}, {Action: "Deny", Peers: []wm.APeer{{Namespaces: all}}}}}},
	{nps: []wm.NP{{NS: "ns1", Name: "negative", PodSel: wm.Sel{}, Types: []string{"Ingress"}, Ingress: []wm.NPRule{{Peers: []wm.NPPeer{{NSSel: all, Pod: wm.ME("app", "NotIn", "zz")}}, Ports: []wm.NPPort{{HasPort: true, Num: 8080}}}, {Peers: []wm.NPPeer{{NSSel: wm.ME("team", "DoesNotExist"), Pod: wm.ME("role", "DoesNotExist")}}, Ports: []wm.NPPort{{HasPort: true, Num: 80}}}}}}},
}

func base(cp []wm.CPort, p polv) *wm.World {
	return &wm.World{NSs: []wm.NS{{Name: "ns1", Labels: map[string]string{"team": "a"}, HasObj: true}, {Name: "ns2", Labels: map[string]string{"team": "b"}, HasObj: true}},
		WLs: []wm.Workload{
			{Kind: "Deployment", NS: "ns1", Name: "w1", Labels: map[string]string{"app": "a", "tier": "x"}, Ports: cp, Replicas: 1},
			{Kind: "Deployment", NS: "ns1", Name: "w2", Labels: map[string]string{"app": "b"}, Ports: cportAlpha[0], Replicas: 2},
			{Kind: "Deployment", NS: "ns2", Name: "w1", Labels: map[string]string{"app": "a"}, Ports: cportAlpha[0], Replicas: 1},
		}, NPs: p.nps, ANPs: p.anps, BANP: p.banp}
}

// Eval compares every {ingress-controller} line and warning with the reference.
func Eval(w *wm.World, x *fw.Rec) {
	tr, ca := wm.RunList(w.Infos(), false)
	x.Describe(func() any { return map[string]any{"world": w.Brief(), "manifests": w.YAMLDocs()} })
	x.Outcome(tr.OutcomeKey())
	if tr.Err != nil {
		x.Fail("unexpected error: "+tr.Err.Error(), "", tr.Err.Error())
		return
	}
	for _, b := range tr.WF {
		x.Fail("result not well-formed (C05 invariant): "+b, "", strings.Join(tr.WF, "\n"))
	}
	lines := 0
	raw := w
	w = raw.NormalizeNS() // objects written without metadata.namespace live in "default" (the manifests keep the omission)
	for wi := range w.WLs {
		ps := w.WLs[wi].PeerString()
		// the source is an unlabeled pod of a namespace unknown to the input: no NetworkPolicy can govern it, but admin policies
		// whose subject covers every namespace (or excludes only known ones) do, on their egress side. The full reference is
		// used unless the input has NetworkPolicies in the namespace name the tool reserves for that pod (recorded finding).
		ingressOnly := hasPolicyIn(w, "ingress-controller-ns")
		exp, targeted, amb := w.RefIngressConn(wi, wm.IngressByStatement, ingressOnly)
		if amb {
			x.Count("route_designation_ambiguous_skipped", 1)
			continue
		}
		got, ok := tr.Conns["{ingress-controller}|"+ps]
		if !ok {
			got = "No Connections"
		} else {
			lines++
		}
		warned := false
		for _, e := range ca.Errors() {
			msg := e.Error().Error()
			// "a warning names the blocked backend": the workload's peer string next to the word block / backend, whatever the
			// rest of the sentence says
			if !e.IsFatal() && !e.IsSevere() && strings.Contains(msg, ps) && (strings.Contains(strings.ToLower(msg), "block") || strings.Contains(strings.ToLower(msg), "backend")) {
				warned = true
			}
		}
		wantWarn := targeted && exp == "No Connections"
		if got == exp && warned == wantWarn {
			continue
		}
		// defect model of the recorded finding: does it predict exactly what the tool did (line and warning)?
		known := ""
		if dm, dmT, _ := w.RefIngressConn(wi, wm.IngressDefectTargetPort, ingressOnly); dm == got && warned == (dmT && dm == "No Connections") {
			known = kfTargetPort
		} else if dm, dmT, _ := w.RefIngressConn(wi, wm.IngressByStatement, false); dm == got && warned == (dmT && dm == "No Connections") && hasPolicyIn(w, "ingress-controller-ns") {
			// defect model: the source is not "a pod in a namespace unknown to the input" but a pod of namespace ingress-controller-ns,
			// so the egress side of that namespace's policies is applied to it as well
			known = kfReservedNS
		}
		if got != exp {
			x.Fail(fmt.Sprintf("ingress-controller line differs: tool %s, reference %s", shape(got), shape(exp)), known,
				fmt.Sprintf("{ingress-controller} => %s: tool=%q reference=%q", ps, got, exp))
		}
		if wantWarn && !warned && got == "No Connections" {
			x.Fail("missing blocked-ingress warning", known, "workload "+ps+" is targeted through a service but no line is reported and no warning names it")
		}
		if warned && !wantWarn {
			x.Fail("spurious blocked-ingress warning", known, fmt.Sprintf("warning names %s although the reference line is %q (targeted=%v)", ps, exp, targeted))
		}
	}
	if lines > 0 || strings.Contains(tr.OutcomeKey(), "ingress") {
		x.Nontrivial(tr.OutcomeKey())
		x.Sample(map[string]any{"world": w.Brief()[3:], "ingress_lines": lines})
	}
}

func hasPolicyIn(w *wm.World, ns string) bool {
	for i := range w.NPs {
		if w.NPs[i].NS == ns {
			return true
		}
	}
	return false
}

func shape(c string) string {
	if c == "No Connections" {
		return "no line"
	}
	return "a line"
}

// Gens returns the ingress world scopes (also used by C05/C09/C16).
func GenIngress(c *fw.Ctx) *wm.World {
	sps := svcPortSets()
	cp := fw.Pick(c, cportAlpha, "container ports of w1")
	sel := fw.Pick(c, sels, "service selector")
	ports := sps[c.Choose(len(sps), "service ports")]
	pol := fw.Pick(c, policies, "policies")
	b := fw.Pick(c, backends, "ingress backend")
	place := c.Choose(3, "backend as: default backend | rule path | both (default + rule to p2)")
	w := base(cp, pol)
	w.Svcs = []wm.Svc{{NS: "ns1", Name: "s", Sel: sel, Ports: ports}, {NS: "ns2", Name: "s2", Sel: map[string]string{"app": "a"}, Ports: []wm.SvcPort{{Port: 80}}}}
	in := wm.Ing{NS: "ns1", Name: "i"}
	switch place {
	case 0:
		in.Default = &b
	case 1:
		in.Rules = []wm.Backend{b}
	default:
		in.Default = &b
		in.Rules = []wm.Backend{{Svc: "s", PortName: "p2"}}
	}
	w.Ings = []wm.Ing{in}
	return w
}

func GenRoute(c *fw.Ctx) *wm.World {
	sps := svcPortSets()
	cp := fw.Pick(c, cportAlpha, "container ports of w1")
	sel := fw.Pick(c, sels, "service selector")
	ports := sps[c.Choose(len(sps), "service ports")]
	pol := fw.Pick(c, policies, "policies")
	rt := fw.Pick(c, rtargets, "route targetPort")
	to := fw.Pick(c, [][]string{{"s"}, {"missing", "s"}, {"s", "sb"}, {"Deployment/s", "sb"}}, "route to / alternateBackends (the last one: to of another kind than Service, ignored)")
	rns := fw.Pick(c, []string{"ns1", "ns2"}, "route namespace")
	w := base(cp, pol)
	w.Svcs = []wm.Svc{{NS: "ns1", Name: "s", Sel: sel, Ports: ports}, {NS: "ns1", Name: "sb", Sel: map[string]string{"app": "b"}, Ports: []wm.SvcPort{{Name: "p1", Port: 8080}}}, {NS: "ns2", Name: "s", Sel: map[string]string{"app": "a"}, Ports: []wm.SvcPort{{Name: "p1", Port: 80}}}}
	w.Routes = []wm.Route{{NS: rns, Name: "r", To: to, Target: rt}}
	return w
}

// GenDefaultNS: everything lives in the namespace "default", each object spelling it or leaving metadata.namespace out.
func GenDefaultNS(c *fw.Ctx) *wm.World {
	ns := func(label string) string { return fw.Pick(c, []string{"default", ""}, "namespace of the "+label+": spelled | omitted") }
	wns, sns, ins, rns := ns("workload"), ns("Service"), ns("Ingress"), ns("Route")
	via := c.Choose(3, "reached through: Ingress | Route | both")
	pol := c.Choose(3, "policy: none | default accepts 8080 from everywhere | deny all ingress")
	hasObj := c.Choose(2, "Namespace object for default") == 1
	w := &wm.World{NSs: []wm.NS{{Name: "default", Labels: map[string]string{"team": "a"}, HasObj: hasObj}, {Name: "ns2", Labels: map[string]string{"team": "b"}, HasObj: true}},
		WLs: []wm.Workload{{Kind: "Deployment", NS: wns, Name: "w1", Labels: map[string]string{"app": "a"}, Ports: cportAlpha[0], Replicas: 1},
			{Kind: "Deployment", NS: "ns2", Name: "w1", Labels: map[string]string{"app": "a"}, Ports: cportAlpha[0], Replicas: 1}},
		Svcs: []wm.Svc{{NS: sns, Name: "s", Sel: map[string]string{"app": "a"}, Ports: []wm.SvcPort{{Name: "p1", Port: 80, Target: wm.TNum(8080)}, {Name: "p2", Port: 81, Target: wm.TName("http")}}}}}
	if via != 1 {
		w.Ings = []wm.Ing{{NS: ins, Name: "i", Default: &wm.Backend{Svc: "s", PortNum: 80}}}
	}
	if via != 0 {
		w.Routes = []wm.Route{{NS: rns, Name: "r", To: []string{"s"}, Target: wm.TName("p2")}}
	}
	switch pol {
	case 1:
		w.NPs = []wm.NP{{NS: wns, Name: "a8080", PodSel: wm.Sel{}, Types: []string{"Ingress"}, Ingress: []wm.NPRule{{Peers: []wm.NPPeer{{NSSel: all}}, Ports: []wm.NPPort{{HasPort: true, Num: 8080}}}}}}
	case 2:
		w.NPs = []wm.NP{{NS: wns, Name: "deny", PodSel: wm.Sel{}, Types: []string{"Ingress"}}}
	}
	return w
}

// GenTwoNamespaces: workloads of the same kind and name in two namespaces, each behind its own Service + Ingress/Route,
// with container ports of the same name but different numbers.
func GenTwoNamespaces(c *fw.Ctx) *wm.World {
	cpA := fw.Pick(c, [][]wm.CPort{{{Name: "http", Num: 8080}}, {{Name: "http", Num: 8080}, {Name: "web", Num: 9090}}, {{Name: "web", Num: 8080}}}, "container ports of ns1/w")
	cpB := fw.Pick(c, [][]wm.CPort{{{Name: "http", Num: 9090}}, {{Name: "http", Num: 80}, {Num: 8080}}, {{Name: "http", Num: 8080}}}, "container ports of ns2/w")
	tA := fw.Pick(c, []wm.Target{wm.TName("http"), wm.TNum(8080), {}}, "targetPort in ns1")
	tB := fw.Pick(c, []wm.Target{wm.TName("http"), wm.TNum(9090), {}}, "targetPort in ns2")
	kindB := fw.Pick(c, []string{"Deployment", "StatefulSet"}, "kind of ns2/w")
	viaA := c.Choose(2, "ns1: Ingress | Route")
	viaB := c.Choose(2, "ns2: Ingress | Route")
	pol := fw.Pick(c, policies[:4], "policies")
	w := &wm.World{NSs: []wm.NS{{Name: "ns1", Labels: map[string]string{"team": "a"}, HasObj: true}, {Name: "ns2", Labels: map[string]string{"team": "b"}, HasObj: true}},
		WLs: []wm.Workload{
			{Kind: "Deployment", NS: "ns1", Name: "w", Labels: map[string]string{"app": "a"}, Ports: cpA, Replicas: 1},
			{Kind: kindB, NS: "ns2", Name: "w", Labels: map[string]string{"app": "a"}, Ports: cpB, Replicas: 1},
		}, NPs: pol.nps, ANPs: pol.anps, BANP: pol.banp}
	w.Svcs = []wm.Svc{{NS: "ns1", Name: "s", Sel: map[string]string{"app": "a"}, Ports: []wm.SvcPort{{Name: "p1", Port: 8080, Target: tA}}}, {NS: "ns2", Name: "s", Sel: map[string]string{"app": "a"}, Ports: []wm.SvcPort{{Name: "p1", Port: 8080, Target: tB}}}}
	add := func(ns string, via int) {
		if via == 0 {
			w.Ings = append(w.Ings, wm.Ing{NS: ns, Name: "i", Default: &wm.Backend{Svc: "s", PortName: "p1"}})
		} else {
			w.Routes = append(w.Routes, wm.Route{NS: ns, Name: "r", To: []string{"s"}})
		}
	}
	add("ns1", viaA)
	add("ns2", viaB)
	return w
}

func GenBoth(c *fw.Ctx) *wm.World {
	// an Ingress and a Route on the same workload through different service ports: the line is the union
	cp := fw.Pick(c, cportAlpha, "container ports of w1")
	pol := fw.Pick(c, policies, "policies")
	b := fw.Pick(c, backends[:6], "ingress backend")
	rt := fw.Pick(c, rtargets[:4], "route targetPort")
	w := base(cp, pol)
	w.Svcs = []wm.Svc{{NS: "ns1", Name: "s", Sel: map[string]string{"app": "a"}, Ports: []wm.SvcPort{{Name: "p1", Port: 80, Target: wm.TName("http")}, {Name: "p2", Port: 8080}}}}
	w.Ings = []wm.Ing{{NS: "ns1", Name: "i", Rules: []wm.Backend{b}}}
	w.Routes = []wm.Route{{NS: "ns1", Name: "r", To: []string{"s"}, Target: rt}}
	return w
}

func Run(r *fw.Run) {
	r.Rule = "full product of w1's container ports x service selector x service port sets (1-2 ports, named/numbered/absent targetPort) x policies (NetworkPolicy deny / port / namespace / label rules, ANP, BANP) x Ingress backend (default backend, rule path, both; by number, by name, missing service, service of another namespace) resp. Route (to / alternateBackends, targetPort absent / name / number, own or other namespace); every {ingress-controller} line and every blocked-ingress warning is compared with the reference; non-trivial = a line is reported; distinct = distinct reports"
	r.Assume = []string{"Route worlds whose designation differs between the sensible readings (name = service port name; number = effective targetPort / port / literal targetPort) are excluded and counted: the statement leaves the Route rule open",
		"'an arbitrary unlabeled pod in a namespace unknown to the input' = a pod without labels in a namespace whose only label is its name (ingress side of the policies only)"}
	if r.Quick() {
		r.SetBudget(300 * time.Second)
	} else {
		r.SetBudget(30 * time.Minute)
	}
	fw.Explore(r, "ingress", fw.Full, func(c *fw.Ctx) *wm.World {
		w := GenIngress(c)
		if r.Quick() {
			c.Stride(3)
		}
		return w
	}, Eval)
	fw.Explore(r, "same-name-two-namespaces", fw.Full, GenTwoNamespaces, Eval)
	fw.Explore(r, "namespace-default-spelled-or-omitted", fw.Full, GenDefaultNS, Eval)
	fw.Explore(r, "route", fw.Full, func(c *fw.Ctx) *wm.World {
		w := GenRoute(c)
		if r.Quick() {
			c.Stride(3) // quick tier: every other leaf of the route product
		}
		return w
	}, Eval)
	fw.Explore(r, "ingress+route", fw.Full, GenBoth, Eval)
}
