// Package c09: every output format faithfully encodes the computed result.
package c09

import (
	"fmt"
	"os"
	"os/exec"
	"path/filepath"
	"sort"
	"strings"
	"time"

	metav1 "k8s.io/apimachinery/pkg/apis/meta/v1"
	"k8s.io/cli-runtime/pkg/resource"

	"github.com/np-guard/netpol-analyzer/pkg/netpol/connlist"
	"github.com/np-guard/netpol-analyzer/pkg/netpol/diff"
	"github.com/np-guard/netpol-analyzer/pkg/netpol/zzverif"

	"verif/checks/c02"
	"verif/checks/c04"
	"verif/checks/c10"
	"verif/checks/expo"
	"verif/fw"
	"verif/parse"
	"verif/wm"
)

func init() { fw.Register("C09", "exploration", Run) }

var ListFormats = []string{"txt", "json", "csv", "md", "dot"}

// ParseList parses a list output of the given format into the common form.
func ParseList(format, out string) (parse.List, error) {
	switch format {
	case "txt":
		return parse.ParseListTxt(out)
	case "json":
		return parse.ParseListJSON(out)
	case "csv":
		return parse.ParseListCSV(out)
	case "md":
		return parse.ParseListMD(out)
	case "dot":
		d, err := parse.ParseDot(out)
		if err != nil {
			return parse.List{}, err
		}
		return parse.ListFromDot(d), nil
	}
	return parse.List{}, fmt.Errorf("format %s", format)
}

func selKey(ls metav1.LabelSelector) string {
	s := parse.Sel{ML: map[string]string{}}
	for k, v := range ls.MatchLabels {
		s.ML[k] = v
	}
	for _, r := range ls.MatchExpressions {
		vals := append([]string{}, r.Values...)
		sort.Strings(vals)
		s.ME = append(s.ME, r.Key+"|"+string(r.Operator)+"|"+strings.Join(vals, " "))
	}
	return s.Key()
}

type connLike interface {
	IsAllConnections() bool
	IsEmpty() bool
}

func apiConnKey(c connLike) string {
	pc := parse.Conn{Num: map[string][][2]int{}, Named: map[string][]string{}}
	if c.IsAllConnections() {
		pc.All = true
		return pc.Key()
	}
	for p, ivs := range zzverif.Numeric(c) {
		pc.Num[p] = append(pc.Num[p], ivs...)
	}
	for p, ns := range zzverif.NamedPorts(c) {
		pc.Named[p] = append(pc.Named[p], ns...)
	}
	return pc.Key()
}

func p2pConnKey(c connlist.Peer2PeerConnection) string {
	pc := parse.Conn{Num: map[string][][2]int{}, Named: map[string][]string{}}
	if c.AllProtocolsAndPorts() {
		pc.All = true
		return pc.Key()
	}
	for p, rs := range c.ProtocolsAndPorts() {
		for _, r := range rs {
			pc.Num[string(p)] = append(pc.Num[string(p)], [2]int{int(r.Start()), int(r.End())})
		}
	}
	return pc.Key()
}

func sortedKey(xs []string) string {
	sort.Strings(xs)
	return strings.Join(xs, "\n")
}

// Expected builds the expected relation from the API objects.
type Expected struct {
	Conns       []string // src|dst|connKey
	Egress      []string // workload|peerKey|connKey  (cluster exposure entries)
	Ingress     []string
	EgressIP    []string // workload|ip range|connKey : IP connections repeated in the exposure sections of txt/json/csv/md
	IngressIP   []string
	Unprotected []string
}

func expected(conns []connlist.Peer2PeerConnection, ca *connlist.ConnlistAnalyzer, exposure bool) Expected {
	var e Expected
	for _, c := range conns {
		e.Conns = append(e.Conns, c.Src().String()+"|"+c.Dst().String()+"|"+p2pConnKey(c))
	}
	if !exposure {
		return e
	}
	exposed := map[string]bool{}
	for _, ep := range ca.ExposedPeers() {
		w := ep.ExposedPeer().String()
		exposed[w] = true
		// a workload that is not protected in a direction has an empty exposure list in the API and is, by the API's
		// documentation, exposed to the whole world: the formats spell that as "entire-cluster : All Connections"
		if !ep.IsProtectedByEgressNetpols() {
			e.Unprotected = append(e.Unprotected, w+"|Egress")
			e.Egress = append(e.Egress, w+"|ENTIRE|ALL")
		}
		if !ep.IsProtectedByIngressNetpols() {
			e.Unprotected = append(e.Unprotected, w+"|Ingress")
			e.Ingress = append(e.Ingress, w+"|ENTIRE|ALL")
		}
		key := func(x connlist.XgressExposureData) string {
			if x.IsExposedToEntireCluster() {
				return "ENTIRE"
			}
			return "ns" + selKey(x.NamespaceLabels()) + "/pod" + selKey(x.PodLabels())
		}
		for _, x := range ep.EgressExposure() {
			e.Egress = append(e.Egress, w+"|"+key(x)+"|"+apiConnKey(x.PotentialConnectivity()))
		}
		for _, x := range ep.IngressExposure() {
			e.Ingress = append(e.Ingress, w+"|"+key(x)+"|"+apiConnKey(x.PotentialConnectivity()))
		}
	}
	for _, c := range conns {
		if c.Dst().IsPeerIPType() && exposed[c.Src().String()] {
			e.EgressIP = append(e.EgressIP, c.Src().String()+"|"+c.Dst().String()+"|"+p2pConnKey(c))
		}
		if c.Src().IsPeerIPType() && exposed[c.Dst().String()] {
			e.IngressIP = append(e.IngressIP, c.Dst().String()+"|"+c.Src().String()+"|"+p2pConnKey(c))
		}
	}
	return e
}

// CheckList compares one parsed output with the expectation; returns failures (class, detail).
func CheckList(format string, pl parse.List, e Expected, exposure bool) [][2]string {
	var bad [][2]string
	fail := func(class, detail string) { bad = append(bad, [2]string{format + ": " + class, detail}) }
	var got []string
	for _, t := range pl.Conns {
		got = append(got, t.Src+"|"+t.Dst+"|"+parse.ConnKey(t.Conn))
	}
	if g, w := sortedKey(got), sortedKey(append([]string{}, e.Conns...)); g != w {
		fail("connection lines differ from the computed connections", "parsed:\n"+g+"\ncomputed:\n"+w)
	}
	if !exposure {
		if pl.HasExposure || len(pl.Egress)+len(pl.Ingress)+len(pl.Unprotected) > 0 {
			fail("exposure section without exposure analysis", "")
		}
		return bad
	}
	sec := func(name string, lines []parse.ExpLine, want, wantIP []string) {
		var g, gip []string
		for _, l := range lines {
			var rp parse.RepPeer
			var err error
			if format == "dot" {
				rp, err = parse.ParseRepPeerDot(l.Peer)
			} else {
				rp, err = parse.ParseRepPeer(l.Peer)
			}
			if err != nil {
				fail(name+" exposure: peer cannot be parsed back", err.Error())
				continue
			}
			if rp.IP {
				gip = append(gip, l.Workload+"|"+l.Peer+"|"+parse.ConnKey(l.Conn))
			} else {
				g = append(g, l.Workload+"|"+rp.Key()+"|"+parse.ConnKey(l.Conn))
			}
		}
		if a, b := sortedKey(g), sortedKey(append([]string{}, want...)); a != b {
			fail(name+" exposure entries differ from ExposedPeers()", "parsed:\n"+a+"\ncomputed:\n"+b)
		}
		if format != "dot" { // dot does not repeat the IP connections in the exposure part
			if a, b := sortedKey(gip), sortedKey(append([]string{}, wantIP...)); a != b {
				fail(name+" exposure section: IP lines differ from the IP connections of the exposed workloads", "parsed:\n"+a+"\ncomputed:\n"+b)
			}
		} else if len(gip) > 0 {
			fail(name+" exposure: unexpected IP exposure edge in dot", strings.Join(gip, "\n"))
		}
	}
	sec("egress", pl.Egress, e.Egress, e.EgressIP)
	sec("ingress", pl.Ingress, e.Ingress, e.IngressIP)
	if format == "txt" {
		if a, b := sortedKey(append([]string{}, pl.Unprotected...)), sortedKey(append([]string{}, e.Unprotected...)); a != b {
			fail("unprotected-workload lines differ from the protection flags", "parsed:\n"+a+"\ncomputed:\n"+b)
		}
	}
	return bad
}

type listCase struct {
	infos    []*resource.Info
	brief    []string
	exposure bool
	focus    string // --focusworkload ("" = none): the formats must encode the computed (filtered) result all the same
}

func evalList(cs listCase, x *fw.Rec) {
	x.Describe(func() any {
		return map[string]any{"world": cs.brief, "exposure": cs.exposure, "focusworkload": cs.focus, "manifests": wm.InfoYAML(cs.infos)}
	})
	var oc []string
	for _, f := range ListFormats {
		opts := []connlist.ConnlistAnalyzerOption{connlist.WithLogger(wm.Quiet()), connlist.WithMuteErrsAndWarns(), connlist.WithOutputFormat(f)}
		if cs.exposure {
			opts = append(opts, connlist.WithExposureAnalysis())
		}
		if cs.focus != "" {
			opts = append(opts, connlist.WithFocusWorkload(cs.focus))
		}
		ca := connlist.NewConnlistAnalyzer(opts...)
		conns, _, err := ca.ConnlistFromResourceInfos(cs.infos)
		if err != nil {
			x.Count("analysis_errors_skipped", 1)
			x.Outcome("ERR")
			return
		}
		out, err := ca.ConnectionsListToString(conns)
		if err != nil {
			x.Fail(f+": formatting fails", "", err.Error())
			continue
		}
		// formatting is a pure function of the result: a second call on the same analyzer gives the same bytes
		if out2, err2 := ca.ConnectionsListToString(conns); err2 != nil || out2 != out {
			x.Fail(f+": formatting the same result twice gives different output", "", fmt.Sprintf("error: %v\n--- first\n%s\n--- second\n%s", err2, out, out2))
		}
		e := expected(conns, ca, cs.exposure)
		pl, err := ParseList(f, out)
		if err != nil {
			x.Fail(f+": output cannot be parsed", "", err.Error()+"\n"+out)
			continue
		}
		for _, b := range CheckList(f, pl, e, cs.exposure) {
			x.Fail(b[0], "", b[1]+"\n--- output\n"+out)
		}
		if f == "txt" {
			oc = append(oc, out)
			if len(conns) > 0 {
				x.Nontrivial(out)
				x.Sample(map[string]any{"world": cs.brief, "exposure": cs.exposure, "txt": first(strings.Split(out, "\n"), 8)})
			}
		}
		x.Count("outputs_parsed", 1)
	}
	x.Outcome(strings.Join(oc, ""))
}

func first(s []string, k int) []string {
	if len(s) > k {
		return s[:k]
	}
	return s
}

// ---------- diff ----------

var DiffFormats = []string{"txt", "csv", "md", "dot"}

func parseInfo(info string) (names []string, verb string, err error) {
	if info == "" {
		return nil, "", nil
	}
	for _, v := range []string{"added", "removed"} {
		if strings.HasSuffix(info, " "+v) {
			verb = v
			info = strings.TrimSuffix(info, " "+v)
		}
	}
	switch {
	case verb == "":
		return nil, "", fmt.Errorf("bad workloads-diff-info %q", info)
	case strings.HasPrefix(info, "workload "):
		names = strings.Split(strings.TrimPrefix(info, "workload "), " and ")
	default:
		return nil, "", fmt.Errorf("bad workloads-diff-info %q", info)
	}
	sort.Strings(names)
	return names, verb, nil
}

func CheckDiff(format, out string, d wm.DiffResult) [][2]string {
	var bad [][2]string
	fail := func(class, detail string) {
		bad = append(bad, [2]string{"diff " + format + ": " + class, detail + "\n--- output\n" + out})
	}
	var lines []parse.DiffLine
	var cols map[string]string
	var err error
	changes := 0
	for _, e := range d.Entries {
		if e.Type != "unchanged" {
			changes++
		}
	}
	if changes == 0 { // no added / removed / changed entry: every format (dot included) is empty
		if strings.TrimSpace(out) != "" {
			fail("non-empty output for a diff without changes", "")
		}
		return bad
	}
	switch format {
	case "txt":
		lines, err = parse.ParseDiffTxt(out)
	case "csv":
		lines, err = parse.ParseDiffCSV(out)
	case "md":
		lines, err = parse.ParseDiffMD(out)
	case "dot":
		var dg parse.Dot
		if dg, err = parse.ParseDot(out); err == nil {
			lines, cols, err = parse.DiffFromDot(dg)
		}
	}
	if err != nil {
		fail("output cannot be parsed", err.Error())
		return bad
	}
	var got, want []string
	for _, l := range lines {
		k := l.Type + "|" + l.Src + "|" + l.Dst + "|" + parse.ConnKey(l.C1) + "|" + parse.ConnKey(l.C2)
		if format != "dot" {
			names, verb, err := parseInfo(l.Info)
			if err != nil {
				fail("workloads-diff-info cannot be parsed", err.Error())
			}
			k += "|" + strings.Join(names, "&") + "|" + verb
		}
		got = append(got, k)
	}
	newPeers, lostPeers := map[string]bool{}, map[string]bool{}
	for _, e := range d.Entries {
		if e.Type == "unchanged" && format != "dot" {
			continue
		}
		k := e.Type + "|" + e.Src + "|" + e.Dst + "|" + parse.ConnKey(e.C1) + "|" + parse.ConnKey(e.C2)
		var names []string
		if e.SrcNew {
			names = append(names, e.Src)
		}
		if e.DstNew {
			names = append(names, e.Dst)
		}
		sort.Strings(names)
		for _, n := range names {
			if e.Type == "added" {
				newPeers[n] = true
			} else if e.Type == "removed" {
				lostPeers[n] = true
			}
		}
		if format != "dot" {
			verb := ""
			if len(names) > 0 {
				verb = map[string]string{"added": "added", "removed": "removed"}[e.Type]
			}
			k += "|" + strings.Join(names, "&") + "|" + verb
		}
		want = append(want, k)
	}
	if a, b := sortedKey(got), sortedKey(want); a != b {
		fail("entries differ from the computed diff", "parsed:\n"+a+"\ncomputed:\n"+b)
	}
	if format == "dot" {
		for id, c := range cols {
			wantC := "blue"
			if newPeers[id] {
				wantC = "#008000"
			} else if lostPeers[id] {
				wantC = "red"
			}
			if c != wantC {
				fail("peer colour differs from the new/lost flags", fmt.Sprintf("node %q has colour %s, expected %s", id, c, wantC))
			}
		}
	}
	return bad
}

func Run(r *fw.Run) {
	r.Rule = "list: worlds from the exposure scopes (entries of every kind: entire-cluster, namespace name, namespace selector, pod selector with expressions, named ports, unprotected workloads), the ingress scopes ({ingress-controller} lines), ANP stacks and a shape scope (multi-protocol multi-range sets, IP ranges from excepts, namespace names with '-'); each analysed with every format, with and without exposure (ingress scopes also with --focusworkload ingress-controller / a workload name); every output is parsed back by independent parsers and compared with the relation built from the API objects (peers by String(), connections structurally, exposure entries by parsed selectors); diff: ordered pairs of the C04 family in every diff format incl. dot (unchanged edges, peer colours); non-trivial = non-empty report; distinct = distinct txt outputs"
	r.Assume = []string{"the parsers in /verif/parse are the trusted base", "dot names representative peers '<pod>_in_<namespace>' without brackets and does not repeat the IP connections in its exposure part: compared after that renaming",
		"the exposure sections of txt/json/csv/md repeat the IP connections of every workload listed in ExposedPeers(); this is read off the tool's behaviour and asserted as part of 'exactly the exposure entries'"}
	if r.Quick() {
		r.SetBudget(300 * time.Second)
	} else {
		r.SetBudget(30 * time.Minute)
	}
	q := r.Quick()
	for _, sc := range expo.Scopes(true) {
		sc := sc
		stride := map[string]int{"shared-policy": 2, "one-policy/two-rules": 12, "two-policies": 4}[sc.Name]
		if !q {
			stride = (stride + 3) / 4
		}
		fw.Explore(r, "list/exposure/"+sc.Name, fw.Full, func(c *fw.Ctx) listCase {
			w := sc.Gen(c)
			exp := c.Choose(2, "exposure") == 1
			c.Stride(stride)
			return listCase{w.Infos(), w.Brief(), exp, ""}
		}, evalList)
	}
	for name, gen := range map[string]func(*fw.Ctx) *wm.World{"ingress": c10.GenIngress, "route": c10.GenRoute, "ingress+route": c10.GenBoth} {
		gen := gen
		stride := map[bool]int{true: 400, false: 40}[q]
		if q && name == "route" {
			stride = 250 // the route product is twice the ingress product; its quick tier has a quarter of the other dimensions
		}
		if name == "ingress+route" {
			stride = 2
		}
		fw.Explore(r, "list/"+name, fw.Full, func(c *fw.Ctx) listCase {
			w := gen(c)
			routeQuick := q && name == "route" // quick tier: the route product (the largest) without the exposure dimension and with two focus values
			exp := !routeQuick && c.Choose(2, "exposure") == 1 && len(w.ANPs) == 0 && w.BANP == nil
			fs := []string{"", "ingress-controller", "w1", "ns1/w1"}
			if routeQuick {
				fs = []string{"", "ns1/w1"}
			}
			focus := fw.Pick(c, fs, "--focusworkload")
			c.Stride(stride)
			return listCase{w.Infos(), w.Brief(), exp, focus}
		}, evalList)
	}
	for _, sc := range c02.Scopes(true) {
		sc := sc
		if sc.Name != "S-stack" && sc.Name != "S-many" {
			continue
		}
		fw.Explore(r, "list/anp/"+sc.Name, sc.Mode, func(c *fw.Ctx) listCase {
			w := sc.Gen(c)
			c.Stride(map[bool]int{true: 30, false: 3}[q])
			return listCase{w.Infos(), w.Brief(), false, ""}
		}, evalList)
	}
	// shape scope
	shapePorts := [][]wm.NPPort{nil, {{HasPort: true, Num: 80}, {HasPort: true, Num: 90, End: 95}, {HasPort: true, Num: 53, Proto: "UDP"}}, {{HasPort: true, Name: "http"}, {HasPort: true, Num: 8080}}, {{Proto: "SCTP"}, {HasPort: true, Num: 1, End: 10, Proto: "UDP"}}, {{HasPort: true, Name: "web"}, {HasPort: true, Name: "http"}, {HasPort: true, Name: "dns-x", Proto: "UDP"}}}
	shapePeers := []wm.NPPeer{{NSSel: &wm.Sel{}}, {Pod: &wm.Sel{}}, {Pod: wm.ML("app", "x")}, {NSSel: wm.ML("team", "q")}, {NSSel: wm.ML(wm.NSNameKey, "back-end")}, {NSSel: &wm.Sel{}, Pod: wm.ML("role", "mon")},
		{NSSel: wm.ML("team", "q", "env", "p"), Pod: &wm.Sel{ML: map[string]string{"a": "b"}, ME: []wm.Req{{Key: "app", Op: "In", Vals: []string{"x", "z"}}, {Key: "tier", Op: "Exists"}}}},
		{Pod: wm.ME("app", "NotIn", "a")}, {CIDR: "10.0.0.0/8", Except: []string{"10.1.0.0/16"}},
		{NSSel: &wm.Sel{ML: map[string]string{wm.NSNameKey: "back-end"}, ME: []wm.Req{{Key: "env", Op: "In", Vals: []string{"prod"}}}}, Pod: wm.ML("app", "db")},
		{NSSel: wm.ME("team", "DoesNotExist"), Pod: wm.ME("tier", "In", "t1", "t2")}}
	fw.Explore(r, "list/shapes", fw.Full, func(c *fw.Ctx) listCase {
		dir := fw.Pick(c, []string{"Ingress", "Egress", "Both"}, "direction")
		p1 := c.Choose(len(shapePeers), "peer 1")
		p2 := c.Choose(len(shapePeers), "peer 2")
		qi := c.Choose(len(shapePorts), "ports")
		exp := c.Choose(2, "exposure") == 1
		if q {
			c.Stride(2)
		}
		w := &wm.World{
			NSs: []wm.NS{{Name: "ns1", Labels: map[string]string{"team": "a"}, HasObj: true}},
			WLs: []wm.Workload{
				{Kind: "Deployment", NS: "ns1", Name: "w1", Labels: map[string]string{"app": "a"}, Ports: []wm.CPort{{Name: "http", Num: 8000}}, Replicas: 1},
				{Kind: "StatefulSet", NS: "ns-2", Name: "w-2", Labels: map[string]string{"app": "b"}, Replicas: 2},
				{Kind: "Deployment", NS: "ns1", Name: "w3", Labels: map[string]string{"app": "c"}, Replicas: 1}}}
		np := wm.NP{NS: "ns1", Name: "p", PodSel: *wm.ML("app", "a")}
		rs := []wm.NPRule{{Peers: []wm.NPPeer{shapePeers[p1]}, Ports: shapePorts[qi]}, {Peers: []wm.NPPeer{shapePeers[p2]}, Ports: shapePorts[(qi+1)%len(shapePorts)]}}
		switch dir {
		case "Ingress":
			np.Types, np.Ingress = []string{"Ingress"}, rs
		case "Egress":
			np.Types, np.Egress = []string{"Egress"}, rs
		default:
			np.Types, np.Ingress, np.Egress = []string{"Ingress", "Egress"}, rs[:1], rs[1:]
		}
		w.NPs = []wm.NP{np, {NS: "ns1", Name: "only-in", PodSel: *wm.ML("app", "c"), Types: []string{"Ingress"}, Ingress: []wm.NPRule{{Peers: []wm.NPPeer{{CIDR: "10.0.0.0/9"}, shapePeers[p2]}, Ports: shapePorts[1]}}}}
		return listCase{w.Infos(), w.Brief(), exp, ""}
	}, evalList)

	// the CLI's -f FILE: the file (which exists already and is longer) must hold exactly the encoding of the result
	if bin := os.Getenv("VERIF_CLI_BIN"); bin != "" {
		famC := c04.Family(true)
		fw.Explore(r, "cli-output-file", fw.Full, func(c *fw.Ctx) [3]int {
			return [3]int{c.Choose(2, "list | diff"), c.Choose(6, "world"), c.Choose(5, "format")}
		}, func(p [3]int, x *fw.Rec) {
			ws := []*wm.World{famC[3], famC[40], famC[len(famC)-2], famC[len(famC)-5], famC[100], famC[7]}
			w := ws[p[1]]
			dir := filepath.Join(fw.Scratch, fmt.Sprintf("c09-cli-%d-%d-%d", p[0], p[1], p[2]))
			other := dir + "-other"
			defer os.RemoveAll(dir)
			defer os.RemoveAll(other)
			os.MkdirAll(dir, 0o755)
			os.MkdirAll(other, 0o755)
			os.WriteFile(filepath.Join(dir, "a.yaml"), []byte(strings.Join(w.YAMLDocs(), "---\n")), 0o644)
			os.WriteFile(filepath.Join(other, "a.yaml"), []byte(strings.Join(ws[(p[1]+1)%len(ws)].YAMLDocs(), "---\n")), 0o644)
			outFile := dir + ".out"
			defer os.Remove(outFile)
			os.WriteFile(outFile, []byte(strings.Repeat("stale line of an earlier report\n", 3000)), 0o644)
			x.Describe(func() any { return map[string]any{"world": w.Brief(), "case": fmt.Sprint(p)} })
			if p[0] == 0 {
				f := ListFormats[p[2]]
				if err := exec.Command(bin, "list", "--dirpath", dir, "-o", f, "-q", "-f", outFile).Run(); err != nil {
					x.Fail("cli list -f fails", "", err.Error())
					return
				}
				b, _ := os.ReadFile(outFile)
				ca := connlist.NewConnlistAnalyzer(connlist.WithLogger(wm.Quiet()), connlist.WithMuteErrsAndWarns(), connlist.WithOutputFormat(f))
				conns, _, err := ca.ConnlistFromDirPath(dir)
				if err != nil {
					return
				}
				pl, err := ParseList(f, string(b))
				if err != nil {
					x.Fail("list -f "+f+": the written file cannot be parsed", "", err.Error())
					return
				}
				for _, bb := range CheckList(f, pl, expected(conns, ca, false), false) {
					x.Fail("list -f FILE: "+bb[0], "", bb[1])
				}
			} else {
				if p[2] >= len(DiffFormats) {
					return
				}
				f := DiffFormats[p[2]]
				if err := exec.Command(bin, "diff", "--dir1", dir, "--dir2", other, "-o", f, "-q", "-f", outFile).Run(); err != nil {
					x.Fail("cli diff -f fails", "", err.Error())
					return
				}
				b, _ := os.ReadFile(outFile)
				d, _ := wm.RunDiff(w.Infos(), ws[(p[1]+1)%len(ws)].Infos(), diff.WithOutputFormat(f))
				if d.Err != nil {
					return
				}
				for _, bb := range CheckDiff(f, string(b), d) {
					x.Fail("diff -f FILE: "+bb[0], "", bb[1])
				}
			}
			x.Outcome(fmt.Sprint(p))
			x.Nontrivial(fmt.Sprint(p))
		})
	} else {
		r.HarnessError("VERIF_CLI_BIN is not set (run through run.sh)")
	}

	// diff formats over pairs of the C04 family
	fam := c04.Family(true)
	fw.Explore(r, "diff/pairs", fw.Full, func(c *fw.Ctx) [2]int {
		a, b := c.Choose(len(fam), "world A"), c.Choose(len(fam), "world B")
		c.Stride(map[bool]int{true: 60, false: 6}[q])
		return [2]int{a, b}
	}, func(p [2]int, x *fw.Rec) {
		A, B := fam[p[0]], fam[p[1]]
		x.Describe(func() any { return map[string]any{"A": A.Brief(), "B": B.Brief()} })
		var txt string
		for _, f := range DiffFormats {
			d, da := wm.RunDiff(A.Infos(), B.Infos(), diff.WithOutputFormat(f))
			if d.Err != nil {
				x.Fail("diff fails", "", d.Err.Error())
				return
			}
			out, err := da.ConnectivityDiffToString(d.Raw)
			if err != nil {
				x.Fail("diff "+f+": formatting fails", "", err.Error())
				continue
			}
			for _, b := range CheckDiff(f, out, d) {
				x.Fail(b[0], "", b[1])
			}
			if f == "txt" {
				txt = out
			}
			x.Count("outputs_parsed", 1)
		}
		x.Outcome(txt)
		if txt != "" {
			x.Nontrivial(txt)
			x.Sample(map[string]any{"A": A.Brief(), "B": B.Brief(), "txt": first(strings.Split(txt, "\n"), 6)})
		}
	})
}
