//go:build verif_mapsched

package c08

import (
	"fmt"
	"strings"
	"time"

	"k8s.io/cli-runtime/pkg/resource"

	"github.com/np-guard/netpol-analyzer/pkg/zzmapsched"

	"verif/checks/expo"
	"verif/fw"
	"verif/wm"
)

func init() { runSchedules = realSchedules }

type schedWorld struct {
	w     *wm.World
	infos []*resource.Info
	admin bool
	eval  [][2]string      // pod pairs queried through an engine filled object by object
	other []*resource.Info // the second manifest set of the diff commands (nil: the common one)
}

// podsWorld: workloads given as Pod documents sharing a controller ownerReference (a dump of a live cluster). The pods of
// one workload differ in everything pod-specific (name, node address, pod address); which of them stands for the workload
// is decided inside a map range. Policies name the node addresses exactly (ipBlock /32).
func podsWorld() schedWorld {
	nss := []wm.NS{{Name: "ns1", Labels: map[string]string{"team": "a"}, HasObj: true}}
	w := &wm.World{NSs: nss,
		WLs: []wm.Workload{
			{Kind: "ReplicaSet", NS: "ns1", Name: "web", Labels: map[string]string{"app": "web"}, Ports: []wm.CPort{{Name: "http", Num: 80}}, Replicas: 3},
			{Kind: "ReplicaSet", NS: "ns1", Name: "api", Labels: map[string]string{"app": "api"}, Ports: []wm.CPort{{Name: "http", Num: 8080}}, Replicas: 2},
			{Kind: "Deployment", NS: "ns1", Name: "cli", Labels: map[string]string{"app": "cli"}, Replicas: 1},
		},
		NPs: []wm.NP{{NS: "ns1", Name: "nodes", PodSel: wm.Sel{}, Types: []string{"Ingress", "Egress"},
			Ingress: []wm.NPRule{{Peers: []wm.NPPeer{{CIDR: wm.PodHostIP(0) + "/32"}}, Ports: []wm.NPPort{{HasPort: true, Num: 80}}},
				{Peers: []wm.NPPeer{{CIDR: wm.PodHostIP(1) + "/32"}, {CIDR: wm.PodIP(0) + "/32"}}, Ports: []wm.NPPort{{HasPort: true, Num: 81}}},
				{Peers: []wm.NPPeer{{Pod: all}}, Ports: []wm.NPPort{{HasPort: true, Name: "http"}}}},
			Egress: []wm.NPRule{{Peers: []wm.NPPeer{{CIDR: wm.PodHostIP(2) + "/32"}, {Pod: all}}, Ports: []wm.NPPort{{HasPort: true, Num: 8080}}}}}}}
	nw := *w
	nw.WLs = nil
	infos := nw.Infos()
	infos = append(infos, wm.Express(w.WLs[0], "Pods", 3)...)
	api2 := w.WLs[1]
	api2.Ports = []wm.CPort{{Name: "http", Num: 9090}}
	infos = append(infos, wm.Express(w.WLs[1], "PodsExtraOwner", 1)...)
	infos = append(infos, wm.Express(api2, "Pods", 2)[1])
	infos = append(infos, wm.Express(w.WLs[2], "Deployment", 1)...)
	// a second policy on every pod that allows all ingress: with it, whether a query by port name errs on the first policy's
	// numbered ports or is allowed depends on which of the two policies is looked at first
	allowAll := wm.NP{NS: "ns1", Name: "allow-all-ingress", PodSel: wm.Sel{}, Types: []string{"Ingress"}, Ingress: []wm.NPRule{{}}}
	infos = append(infos, wm.InfoNP(&allowAll))
	w.NPs = append(w.NPs, allowAll)
	return schedWorld{w: w, infos: infos, eval: [][2]string{{"ns1/cli-1", "ns1/web-pod0"}, {"ns1/web-pod1", "ns1/api-pod0"}, {"ns1/api-pod1", "ns1/cli-1"}, {"10.1.2.3", "ns1/web-pod2"}}}
}

type point struct {
	Site string
	N    int
}

func schedWorlds(quick bool) []schedWorld {
	nss := []wm.NS{{Name: "ns1", Labels: map[string]string{"team": "a"}, HasObj: true}, {Name: "ns2", Labels: map[string]string{"team": "b"}, HasObj: true}}
	wls := []wm.Workload{
		{Kind: "Deployment", NS: "ns1", Name: "w1", Labels: map[string]string{"app": "a"}, Ports: []wm.CPort{{Name: "http", Num: 80}, {Name: "web", Num: 8000}}, Replicas: 2},
		{Kind: "Deployment", NS: "ns1", Name: "w2", Labels: map[string]string{"app": "b", "tier": "t"}, Ports: []wm.CPort{{Name: "http", Num: 8080}, {Name: "dns", Num: 53, Proto: "UDP"}}, Replicas: 1},
		{Kind: "StatefulSet", NS: "ns2", Name: "w1", Labels: map[string]string{"app": "a"}, Ports: []wm.CPort{{Name: "http", Num: 80}}, Replicas: 2},
		{Kind: "Deployment", NS: "ns2", Name: "w4", Labels: map[string]string{"app": "c"}, Replicas: 1},
	}
	np1 := wm.NP{NS: "ns1", Name: "p1", PodSel: *wm.ML("app", "a"), Types: []string{"Ingress", "Egress"},
		Ingress: []wm.NPRule{{Peers: []wm.NPPeer{{Pod: wm.ML("app", "b")}, {CIDR: "10.0.0.0/8", Except: []string{"10.1.0.0/16"}}}, Ports: []wm.NPPort{{HasPort: true, Name: "http"}, {HasPort: true, Num: 53, Proto: "UDP"}, {Proto: "SCTP"}}},
			{Peers: []wm.NPPeer{{NSSel: wm.ML("team", "q"), Pod: wm.ML("app", "x")}, {NSSel: all, Pod: wm.ML("role", "mon")}}, Ports: []wm.NPPort{{HasPort: true, Num: 90, End: 95}}}},
		Egress: []wm.NPRule{{Peers: []wm.NPPeer{{NSSel: all}}, Ports: []wm.NPPort{{HasPort: true, Num: 53, Proto: "UDP"}, {HasPort: true, Num: 8080}}}, {Peers: []wm.NPPeer{{CIDR: "192.168.0.0/16"}, {NSSel: wm.ML(wm.NSNameKey, "backend")}}}}}
	np2 := wm.NP{NS: "ns1", Name: "p2", PodSel: wm.Sel{}, Types: []string{"Ingress"}, Ingress: []wm.NPRule{{Peers: []wm.NPPeer{{NSSel: wm.ML("team", "q"), Pod: wm.ML("app", "x")}, {Pod: wm.ME("tier", "Exists")}}, Ports: []wm.NPPort{{HasPort: true, Num: 80}, {HasPort: true, Name: "web"}}}}}
	np3 := wm.NP{NS: "ns2", Name: "p3", PodSel: *wm.ML("app", "a"), Types: []string{"Egress"}, Egress: []wm.NPRule{{Peers: []wm.NPPeer{{NSSel: wm.ML("team", "a"), Pod: wm.ML("app", "a")}, {CIDR: "10.0.0.0/9"}}, Ports: []wm.NPPort{{HasPort: true, Num: 80}}}}}
	p80 := []wm.APort{{Kind: "num", Proto: "TCP", Num: 80}, {Kind: "range", Proto: "UDP", Num: 50, End: 60}}
	anps := []wm.ANP{{Name: "zz-allow", Prio: 3, Subject: wm.APeer{Namespaces: all}, Ingress: []wm.ARule{{Action: "Allow", Peers: []wm.APeer{{Namespaces: wm.ML("team", "a")}}, Ports: &p80}}, Egress: []wm.ARule{{Action: "Pass", Peers: []wm.APeer{{Namespaces: all}}, Ports: &p80}}},
		{Name: "aa-deny", Prio: 9, Subject: wm.APeer{PodsNS: all, PodsPod: wm.ML("app", "a")}, Ingress: []wm.ARule{{Action: "Deny", Peers: []wm.APeer{{Namespaces: all}}}}}}
	banp := &wm.ANP{Name: "default", Subject: wm.APeer{Namespaces: all}, Egress: []wm.ARule{{Action: "Deny", Peers: []wm.APeer{{Namespaces: wm.ML("team", "b")}}, Ports: &p80}}}
	svcs := []wm.Svc{{NS: "ns1", Name: "s", Sel: map[string]string{"app": "b"}, Ports: []wm.SvcPort{{Name: "p1", Port: 80, Target: wm.TName("http")}, {Name: "p2", Port: 8080}}}, {NS: "ns1", Name: "sa", Sel: map[string]string{"app": "a"}, Ports: []wm.SvcPort{{Port: 80}}}}
	ings := []wm.Ing{{NS: "ns1", Name: "i", Default: &wm.Backend{Svc: "s", PortNum: 80}, Rules: []wm.Backend{{Svc: "sa", PortNum: 80}}}}
	routes := []wm.Route{{NS: "ns1", Name: "r", To: []string{"s", "sa"}}}
	// selectors with several matchLabels, several named ports of one protocol, two ingress-controller lines
	np4 := wm.NP{NS: "ns1", Name: "p4", PodSel: *wm.ML("app", "b"), Types: []string{"Ingress", "Egress"},
		Ingress: []wm.NPRule{{Peers: []wm.NPPeer{{NSSel: wm.ML("team", "q", "env", "p", "zone", "z"), Pod: wm.ML("a", "b", "c", "d")}}, Ports: []wm.NPPort{{HasPort: true, Name: "web"}, {HasPort: true, Name: "http"}, {HasPort: true, Name: "admin"}, {HasPort: true, Name: "dns", Proto: "UDP"}}}},
		Egress:  []wm.NPRule{{Peers: []wm.NPPeer{{NSSel: wm.ML("team", "q", "env", "p"), Pod: wm.ML("x", "y", "k", "l")}}, Ports: []wm.NPPort{{HasPort: true, Name: "web"}, {HasPort: true, Name: "http"}, {HasPort: true, Name: "zzz"}}}}}
	ws := []*wm.World{
		{NSs: nss, WLs: wls, NPs: []wm.NP{np1, np2, np3, np4}},
		{NSs: nss, WLs: wls[:3], NPs: []wm.NP{np1, np3}, ANPs: anps, BANP: banp},
		{NSs: nss, WLs: wls[:3], NPs: []wm.NP{np2}, Svcs: svcs, Ings: ings, Routes: routes},
	}
	// one pod selected in one direction by two policies: allow-all from the widest ipBlock, and the entire cluster on a port
	npAllIP := wm.NP{NS: "ns1", Name: "all-from-ip", PodSel: *wm.ML("app", "a"), Types: []string{"Ingress", "Egress"}, Ingress: []wm.NPRule{{Peers: []wm.NPPeer{{CIDR: "0.0.0.0/0"}}}}, Egress: []wm.NPRule{{Peers: []wm.NPPeer{{CIDR: "10.0.0.0/8"}}}}}
	npCluster := wm.NP{NS: "ns1", Name: "cluster-8080", PodSel: wm.Sel{}, Types: []string{"Ingress", "Egress"}, Ingress: []wm.NPRule{{Peers: []wm.NPPeer{{NSSel: all}}, Ports: []wm.NPPort{{HasPort: true, Num: 8080}}}}, Egress: []wm.NPRule{{Peers: []wm.NPPeer{{NSSel: all}}, Ports: []wm.NPPort{{HasPort: true, Num: 53, Proto: "UDP"}}}}}
	npThird := wm.NP{NS: "ns1", Name: "labels", PodSel: *wm.ML("app", "a"), Types: []string{"Ingress"}, Ingress: []wm.NPRule{{Peers: []wm.NPPeer{{NSSel: all, Pod: wm.ML("role", "mon")}}, Ports: []wm.NPPort{{HasPort: true, Num: 9090}}}}}
	// two policies on w2 whose union is every port of every protocol while neither is complete (the second only adds ports to a protocol the first mentions)
	npMost := wm.NP{NS: "ns1", Name: "most", PodSel: *wm.ML("app", "b"), Types: []string{"Ingress"}, Ingress: []wm.NPRule{{Peers: []wm.NPPeer{{Pod: all}}, Ports: []wm.NPPort{{Proto: "TCP"}, {Proto: "UDP"}, {HasPort: true, Num: 1, End: 100, Proto: "SCTP"}}}}}
	npRest := wm.NP{NS: "ns1", Name: "rest", PodSel: *wm.ML("app", "b"), Types: []string{"Ingress"}, Ingress: []wm.NPRule{{Peers: []wm.NPPeer{{Pod: all}}, Ports: []wm.NPPort{{HasPort: true, Num: 101, End: 65535, Proto: "SCTP"}}}}}
	// w1 is opened to the entire cluster by two policies on one protocol and different ports, w2 by one of them only
	npCluster2 := wm.NP{NS: "ns1", Name: "cluster-9090", PodSel: *wm.ML("app", "a"), Types: []string{"Ingress", "Egress"}, Ingress: []wm.NPRule{{Peers: []wm.NPPeer{{NSSel: all}}, Ports: []wm.NPPort{{HasPort: true, Num: 9090}}}}, Egress: []wm.NPRule{{Peers: []wm.NPPeer{{NSSel: all}}, Ports: []wm.NPPort{{HasPort: true, Num: 5353, Proto: "UDP"}}}}}
	ws = append(ws, &wm.World{NSs: nss[:1], WLs: wls[:2], NPs: []wm.NP{npAllIP, npCluster, npThird, npMost, npRest, npCluster2}})
	// exposure-rich worlds from the exposure alphabet
	rules := expo.Rules()
	for _, rs := range [][4]int{{3, 40, 61, 90}, {25, 7, 100, 12}, {117, 50, 33, 71}} {
		w := &wm.World{NSs: nss[:1], WLs: wls[:2]}
		pick := func(i int) wm.NPRule { return rules[i%len(rules)] }
		w.NPs = []wm.NP{{NS: "ns1", Name: "e", PodSel: *wm.ML("app", "a"), Types: []string{"Ingress", "Egress"}, Ingress: []wm.NPRule{pick(rs[0]), pick(rs[1])}, Egress: []wm.NPRule{pick(rs[2]), pick(rs[3])}}}
		if w.NormalizeNS().NamedPortOnIPPossible() {
			w.NPs[0].Egress = []wm.NPRule{{Peers: []wm.NPPeer{{NSSel: wm.ML("team", "q")}, {Pod: wm.ML("app", "x")}}, Ports: []wm.NPPort{{HasPort: true, Name: "http"}}}}
		}
		ws = append(ws, w)
	}
	var res []schedWorld
	for _, w := range ws {
		res = append(res, schedWorld{w: w, infos: w.Infos(), admin: len(w.ANPs) > 0 || w.BANP != nil})
	}
	res = append(res, podsWorld()) // index 7 in both tiers
	// index 8: two rules whose pod selectors hold the same two requirements on one key, written in the two orders
	{
		reqA := wm.Req{Key: "tier", Op: "Exists"}
		reqB := wm.Req{Key: "tier", Op: "NotIn", Vals: []string{"db"}}
		w := &wm.World{NSs: nss[:1], WLs: wls[:2], NPs: []wm.NP{{NS: "ns1", Name: "same-key", PodSel: *wm.ML("app", "a"), Types: []string{"Ingress", "Egress"},
			Ingress: []wm.NPRule{{Peers: []wm.NPPeer{{Pod: &wm.Sel{ME: []wm.Req{reqA, reqB}}}}, Ports: []wm.NPPort{{HasPort: true, Num: 80}}},
				{Peers: []wm.NPPeer{{Pod: &wm.Sel{ME: []wm.Req{reqB, reqA}}}}, Ports: []wm.NPPort{{HasPort: true, Num: 90}}}},
			Egress: []wm.NPRule{{Peers: []wm.NPPeer{{NSSel: wm.ML("team", "q"), Pod: &wm.Sel{ME: []wm.Req{reqB, reqA}}}}, Ports: []wm.NPPort{{HasPort: true, Num: 53, Proto: "UDP"}}},
				{Peers: []wm.NPPeer{{NSSel: wm.ML("team", "q"), Pod: &wm.Sel{ME: []wm.Req{reqA, reqB}}}}, Ports: []wm.NPPort{{HasPort: true, Num: 54, Proto: "UDP"}}}}}}}
		res = append(res, schedWorld{w: w, infos: w.Infos()})
	}
	// index 9: a diff in which a workload loses a connection to one address range and gains the very same connection to
	// another one, in both directions and next to unchanged and changed ranges (the diff groups ip-block entries by their
	// connections before merging touching ranges)
	{
		mk := func(eg1, eg2, in1, in2 string, port int) *wm.World {
			return &wm.World{NSs: nss[:1], WLs: wls[:2], NPs: []wm.NP{{NS: "ns1", Name: "moved", PodSel: *wm.ML("app", "a"), Types: []string{"Ingress", "Egress"},
				Egress:  []wm.NPRule{{Peers: []wm.NPPeer{{CIDR: eg1}, {CIDR: eg2}}, Ports: []wm.NPPort{{HasPort: true, Num: 443}}}, {Peers: []wm.NPPeer{{CIDR: "172.16.0.0/12"}}, Ports: []wm.NPPort{{HasPort: true, Num: port}}}},
				Ingress: []wm.NPRule{{Peers: []wm.NPPeer{{CIDR: in1}, {CIDR: in2}}, Ports: []wm.NPPort{{HasPort: true, Num: 53, Proto: "UDP"}, {HasPort: true, Name: "http"}}}}}}}
		}
		a := mk("10.0.0.0/8", "30.0.0.0/8", "50.0.0.0/8", "70.1.0.0/16", 80)
		b := mk("20.0.0.0/8", "31.0.0.0/8", "60.0.0.0/8", "70.0.0.0/16", 81)
		res = append(res, schedWorld{w: a, infos: a.Infos(), other: b.Infos()})
	}
	if !quick {
		for _, w := range []*wm.World{{NSs: nss, WLs: wls, NPs: []wm.NP{np1, np2, np3}, Svcs: svcs, Ings: ings, Routes: routes},
			{NSs: nss, WLs: wls, ANPs: anps, BANP: banp, Svcs: svcs, Routes: routes}} {
			res = append(res, schedWorld{w: w, infos: w.Infos(), admin: len(w.ANPs) > 0 || w.BANP != nil})
		}
	}
	return res
}

func fact(n int) int {
	f := 1
	for i := 2; i <= n; i++ {
		f *= i
	}
	return f
}

func numAlts(n int) int {
	if n <= 3 {
		return fact(n) - 1
	}
	return n + 1
}

// permOf: the alt-th non-identity order of n keys.
func permOf(alt, n int) []int {
	id := make([]int, n)
	for i := range id {
		id[i] = i
	}
	if n <= 3 {
		// lexicographic permutations, skipping the identity
		var all [][]int
		var rec func(cur, rest []int)
		rec = func(cur, rest []int) {
			if len(rest) == 0 {
				all = append(all, append([]int{}, cur...))
				return
			}
			for i := range rest {
				nr := append(append([]int{}, rest[:i]...), rest[i+1:]...)
				rec(append(cur, rest[i]), nr)
			}
		}
		rec(nil, id)
		return all[alt+1]
	}
	switch alt {
	case 0: // reverse
		p := make([]int, n)
		for i := range p {
			p[i] = n - 1 - i
		}
		return p
	case 1: // rotate by one
		return append(append([]int{}, id[1:]...), 0)
	}
	i := alt - 1 // move element i (1..n-1) to the front
	p := []int{i}
	for _, x := range id {
		if x != i {
			p = append(p, x)
		}
	}
	return p
}

func reversePerm(n int) []int {
	p := make([]int, n)
	for i := range p {
		p[i] = n - 1 - i
	}
	return p
}
func rotatePerm(n int) []int {
	p := make([]int, n)
	for i := range p {
		p[i] = (i + 1) % n
	}
	return p
}
func lastFirstPerm(n int) []int {
	p := []int{n - 1}
	for i := 0; i < n-1; i++ {
		p = append(p, i)
	}
	return p
}

type schedCase struct {
	WI, P, Alt int
	Q, Alt2    int // second deviation (Q < 0: none); Q is an index into the run after the first deviation
}

var schedWs []schedWorld
var canonOut = map[int][]Output{}
var canonPts = map[int][]point{}

// runWith executes every command on world wi under the given deviations and returns outputs and the points seen.
func runWith(wi int, devs map[int]func(n int) []int) ([]Output, []point, string) {
	var pts []point
	diverged := ""
	zzmapsched.Sched = func(site string, n int) []int {
		i := len(pts)
		pts = append(pts, point{site, n})
		if f, ok := devs[i]; ok {
			return f(n)
		}
		return nil
	}
	defer func() { zzmapsched.Sched = nil }()
	sw := schedWs[wi]
	other := otherInfos()
	if sw.other != nil {
		other = sw.other
	}
	out := AllOutputs(sw.infos, other, sw.admin, sw.eval)
	return out, pts, diverged
}

func canonical(wi int) ([]Output, []point, error) {
	if o, ok := canonOut[wi]; ok {
		return o, canonPts[wi], nil
	}
	o1, p1, _ := runWith(wi, nil)
	o2, p2, _ := runWith(wi, nil)
	if len(p1) != len(p2) {
		return nil, nil, fmt.Errorf("canonical schedule of world %d is not reproducible: %d vs %d range executions", wi, len(p1), len(p2))
	}
	for i := range o1 {
		if o1[i].Text != o2[i].Text {
			return nil, nil, fmt.Errorf("canonical schedule of world %d is not reproducible for %s: nondeterminism not owned", wi, o1[i].Name)
		}
	}
	canonOut[wi], canonPts[wi] = o1, p1
	return o1, p1, nil
}

func evalSched(cs schedCase, x *fw.Rec) {
	base, pts, err := canonical(cs.WI)
	if err != nil {
		x.Fail("harness: "+err.Error(), "", err.Error())
		return
	}
	if cs.P >= len(pts) {
		x.Fail("harness: schedule point out of range (replay diverged)", "", fmt.Sprint(cs))
		return
	}
	devs := map[int]func(n int) []int{cs.P: func(n int) []int {
		if n != pts[cs.P].N {
			return nil
		}
		return permOf(cs.Alt, n)
	}}
	second := ""
	if cs.Q >= 0 {
		q := cs.P + 1 + cs.Q
		devs[q] = func(n int) []int {
			second = fmt.Sprintf(" and the %d-th later range execution (%d keys) %s", cs.Q, n, []string{"reversed", "rotated", "last key first"}[cs.Alt2])
			switch cs.Alt2 {
			case 0:
				return reversePerm(n)
			case 1:
				return rotatePerm(n)
			}
			return lastFirstPerm(n)
		}
	}
	got, gpts, _ := runWith(cs.WI, devs)
	site := pts[cs.P].Site
	what := fmt.Sprintf("iterating the map at %s (%d keys, dynamic range execution #%d) in order %v%s", site, pts[cs.P].N, cs.P, permOf(cs.Alt, pts[cs.P].N), second)
	x.Describe(func() any {
		return map[string]any{"schedule": what, "world": schedWs[cs.WI].w.Brief(), "manifests": wm.InfoYAML(schedWs[cs.WI].infos), "range_executions_in_this_run": len(gpts)}
	})
	if cs.Q >= 0 && second == "" {
		x.Count("second_deviation_point_not_reached (same as bound 1)", 1)
	}
	compareSched(base, got, schedWs[cs.WI].w, site, what, x)
	x.Outcome(fmt.Sprintf("%d|%s|%d", cs.WI, site, len(gpts)))
	x.Nontrivial(fmt.Sprintf("%d|%d|%d|%d|%d", cs.WI, cs.P, cs.Alt, cs.Q, cs.Alt2))
	if cs.Alt == 0 && cs.P%17 == 3 {
		x.Sample(map[string]any{"schedule": what, "world": schedWs[cs.WI].w.Brief()[:3]})
	}
	x.AddStates(1)
	x.AddTransitions(int64(len(got)))
	x.Count("range_executions_scheduled", int64(len(gpts)))
}

func compareSched(base, got []Output, w *wm.World, site, what string, x *fw.Rec) {
	for i := range base {
		if i >= len(got) {
			return
		}
		if base[i].Text == got[i].Text {
			continue
		}
		known := ""
		a, b := base[i].Text, got[i].Text
		ea, eb := strings.HasPrefix(a, "ERROR: "), strings.HasPrefix(b, "ERROR: ")
		switch {
		case (ea && wm.IsNamedPortOnIPErrText(a) || eb && wm.IsNamedPortOnIPErrText(b)) && w.NormalizeNS().NamedPortOnIPPossible():
			known = kfNamedPort
		case !ea && !eb && sameUpToSelectorSpelling(a, b):
			known = kfSpelling
		}
		x.Fail(fmt.Sprintf("the iteration order of the map at %s changes the output of: %s", site, cmdClass(base[i].Name)), known,
			fmt.Sprintf("%s: %s\n--- canonical schedule\n%s\n--- this schedule\n%s", what, base[i].Name, clip(a), clip(b)))
	}
}

func realSchedules(r *fw.Run) {
	schedWs = schedWorlds(r.Quick())
	type arity struct{ pts []point }
	ar := make([]arity, len(schedWs))
	if !r.Replaying() {
		for wi := range schedWs {
			_, pts, err := canonical(wi)
			if err != nil {
				r.HarnessError("%v", err)
				return
			}
			ar[wi] = arity{pts}
		}
	} else {
		for wi := range schedWs {
			_, pts, _ := canonical(wi)
			ar[wi] = arity{pts}
		}
	}
	total := 0
	for _, a := range ar {
		total += len(a.pts)
	}
	r.Bounds["schedule_worlds"] = len(schedWs)
	r.Bounds["multi_key_range_executions_in_canonical_runs"] = total
	r.Extra["key_ties_in_canonical_order"] = zzmapsched.Ties.Load()
	onCrash := func(kind, output string, cs schedCase) (fw.Failure, any) {
		return fw.Failure{Class: kind + " under a map-order schedule", Detail: fmt.Sprint(cs) + "\n" + output}, map[string]any{"case": fmt.Sprint(cs)}
	}
	fw.ExploreIsolated(r, "schedules/bound-1", fw.Full, 120*time.Second, func(c *fw.Ctx) schedCase {
		wi := c.Choose(len(schedWs), "world")
		p := c.Choose(len(ar[wi].pts), "deviating range execution")
		alt := c.Choose(numAlts(ar[wi].pts[p].N), "order")
		return schedCase{WI: wi, P: p, Alt: alt, Q: -1}
	}, evalSched, onCrash)
	if r.Quick() {
		return
	}
	// bound 2 on the small worlds: a second deviation at one of the next 40 range executions
	fw.ExploreIsolated(r, "schedules/bound-2", fw.Full, 120*time.Second, func(c *fw.Ctx) schedCase {
		wi := 3 + c.Choose(4, "world (two-policies world and exposure worlds)")
		p := c.Choose(len(ar[wi].pts), "first deviating range execution")
		alt := c.Choose(minInt(numAlts(ar[wi].pts[p].N), 2), "order")
		q := c.Choose(40, "second deviation: offset after the first")
		alt2 := c.Choose(3, "order of the second: reversed | rotated | last first")
		return schedCase{WI: wi, P: p, Alt: alt, Q: q, Alt2: alt2}
	}, evalSched, onCrash)
}

func minInt(a, b int) int {
	if a < b {
		return a
	}
	return b
}
