package c08

import (
	"fmt"
	"os"
	"os/exec"
	"path/filepath"
	"strings"
	"sync/atomic"
	"time"

	"k8s.io/cli-runtime/pkg/resource"

	"verif/checks/expo"
	"verif/fw"
	"verif/wm"
)

func init() { fw.Register("C08", "model_checking", Run) }

const (
	kfSpelling  = "C08-representative-selector-spelling-first-wins"
	kfNamedPort = "C08-named-port-error-depends-on-rule-order"
)

var all = &wm.Sel{}

// compare two output vectors; report per differing output.
func compare(base, got []Output, w *wm.World, what string, x *fw.Rec) {
	for i := range base {
		if i >= len(got) || base[i].Name != got[i].Name {
			x.Fail("harness: output vectors differ in shape", "", what)
			return
		}
		a, b := base[i].Text, got[i].Text
		if a == b {
			continue
		}
		known := ""
		ea, eb := strings.HasPrefix(a, "ERROR: "), strings.HasPrefix(b, "ERROR: ")
		switch {
		case (ea && wm.IsNamedPortOnIPErrText(a) || eb && wm.IsNamedPortOnIPErrText(b)) && w != nil && w.NormalizeNS().NamedPortOnIPPossible():
			// the documented named-port-on-IP error is reached in one order and not in the other
			known = kfNamedPort
		case !ea && !eb && sameUpToSelectorSpelling(a, b):
			known = kfSpelling
		}
		x.Fail(fmt.Sprintf("%s changes the output of: %s", what, cmdClass(base[i].Name)), known,
			fmt.Sprintf("%s: %s\n--- canonical\n%s\n--- after the change of order\n%s", what, base[i].Name, clip(a), clip(b)))
	}
}

func cmdClass(name string) string {
	if i := strings.Index(name, " -o "); i > 0 {
		f := strings.Fields(name[i+4:])
		return name[:i] + " -o " + f[0]
	}
	if strings.HasPrefix(name, "eval") {
		return "eval"
	}
	return name
}

func clip(s string) string {
	if len(s) > 1800 {
		return s[:1800] + " …"
	}
	return s
}

func outcomeKey(os []Output) string {
	var sb strings.Builder
	for _, o := range os {
		if strings.HasPrefix(o.Name, "list -o txt") {
			sb.WriteString(o.Text)
		}
	}
	return sb.String()
}

// ---------- (b1) permutations of semantically unordered lists (in memory) ----------

type permCase struct {
	base, perm *wm.World
	what       string
}

func evalPerm(cs permCase, x *fw.Rec) {
	x.Describe(func() any {
		return map[string]any{"permutation": cs.what, "canonical": cs.base.Brief(), "permuted": cs.perm.Brief(), "canonical_manifests": cs.base.YAMLDocs(), "permuted_manifests": cs.perm.YAMLDocs()}
	})
	admin := len(cs.base.ANPs) > 0 || cs.base.BANP != nil
	other := otherInfos()
	a := AllOutputs(cs.base.Infos(), other, admin, nil)
	b := AllOutputs(cs.perm.Infos(), other, admin, nil)
	compare(a, b, cs.base, cs.what, x)
	k := outcomeKey(a)
	x.Outcome(k)
	if k != "" {
		x.Nontrivial(k + cs.what)
		x.Sample(map[string]any{"permutation": cs.what, "world": cs.base.Brief()})
	}
	x.AddStates(1)
	x.AddTransitions(int64(len(a) + len(b)))
}

var otherCache []*resource.Info

func otherInfos() []*resource.Info {
	if otherCache == nil {
		o := &wm.World{NSs: []wm.NS{{Name: "ns1", Labels: map[string]string{"team": "a"}, HasObj: true}},
			WLs: []wm.Workload{{Kind: "Deployment", NS: "ns1", Name: "w1", Labels: map[string]string{"app": "a"}, Ports: []wm.CPort{{Name: "web", Num: 8000}}, Replicas: 1},
				{Kind: "Deployment", NS: "ns1", Name: "w9", Labels: map[string]string{"app": "z"}, Replicas: 1}},
			NPs: []wm.NP{{NS: "ns1", Name: "p", PodSel: *wm.ML("app", "a"), Types: []string{"Ingress"}, Ingress: []wm.NPRule{{Peers: []wm.NPPeer{{CIDR: "10.0.0.0/9"}}}}}}}
		otherCache = o.Infos()
	}
	return otherCache
}

func baseWorld() *wm.World {
	return &wm.World{
		NSs: []wm.NS{{Name: "ns1", Labels: map[string]string{"team": "a"}, HasObj: true}},
		WLs: []wm.Workload{
			{Kind: "Deployment", NS: "ns1", Name: "w1", Labels: map[string]string{"app": "a"}, Ports: []wm.CPort{{Name: "web", Num: 8000}}, Replicas: 1},
			{Kind: "Deployment", NS: "ns1", Name: "w2", Labels: map[string]string{"app": "b", "tier": "t"}, Ports: []wm.CPort{{Name: "http", Num: 80}}, Replicas: 1},
		}}
}

func clone(w *wm.World) *wm.World {
	c := *w
	c.NPs = append([]wm.NP{}, w.NPs...)
	for i := range c.NPs {
		c.NPs[i].Ingress = append([]wm.NPRule{}, w.NPs[i].Ingress...)
		c.NPs[i].Egress = append([]wm.NPRule{}, w.NPs[i].Egress...)
	}
	return &c
}

func runUnordered(r *fw.Run) {
	rules := expo.Rules()
	q := r.Quick()
	// swap of two rules of one policy
	fw.Explore(r, "unordered/rule-swap", fw.Full, func(c *fw.Ctx) permCase {
		dir := fw.Pick(c, []string{"Ingress", "Egress"}, "direction")
		r1 := c.Choose(len(rules), "rule 1")
		r2 := r1 + 1 + c.Choose(len(rules)-r1, "rule 2 (> rule 1)")
		if r2 >= len(rules) {
			c.Skip()
		}
		c.Stride(map[bool]int{true: 6, false: 1}[q])
		mk := func(a, b wm.NPRule) *wm.World {
			w := baseWorld()
			np := wm.NP{NS: "ns1", Name: "p", PodSel: *wm.ML("app", "a"), Types: []string{dir}}
			if dir == "Ingress" {
				np.Ingress = []wm.NPRule{a, b}
			} else {
				np.Egress = []wm.NPRule{a, b}
			}
			w.NPs = []wm.NP{np}
			return w
		}
		return permCase{mk(rules[r1], rules[r2]), mk(rules[r2], rules[r1]), "swapping two rules of a policy"}
	}, evalPerm)
	// peers within a rule, ports within a rule
	peers := expo.Peers()
	fw.Explore(r, "unordered/peers-and-ports", fw.Full, func(c *fw.Ctx) permCase {
		dir := fw.Pick(c, []string{"Ingress", "Egress"}, "direction")
		p1 := c.Choose(len(peers), "peer 1")
		p2 := c.Choose(len(peers), "peer 2")
		p3 := c.Choose(4, "peer 3 (of the first four)")
		pt := fw.Pick(c, [][]wm.NPPort{{{HasPort: true, Num: 80}, {HasPort: true, Num: 53, Proto: "UDP"}, {HasPort: true, Name: "http"}}, {{HasPort: true, Name: "web"}, {HasPort: true, Num: 90, End: 95}, {Proto: "SCTP"}}}, "ports")
		if p1 >= p2 {
			c.Skip()
		}
		c.Stride(map[bool]int{true: 5, false: 1}[q])
		mk := func(ps []wm.NPPeer, ports []wm.NPPort) *wm.World {
			w := baseWorld()
			np := wm.NP{NS: "ns1", Name: "p", PodSel: *wm.ML("app", "a"), Types: []string{dir}}
			rl := wm.NPRule{Peers: ps, Ports: ports}
			if dir == "Ingress" {
				np.Ingress = []wm.NPRule{rl}
			} else {
				np.Egress = []wm.NPRule{rl}
			}
			w.NPs = []wm.NP{np}
			return w
		}
		a := []wm.NPPeer{peers[p1], peers[p2], peers[p3]}
		b := []wm.NPPeer{peers[p3], peers[p2], peers[p1]}
		rp := []wm.NPPort{pt[2], pt[0], pt[1]}
		return permCase{mk(a, pt), mk(b, rp), "permuting the peers and the ports of a rule"}
	}, evalPerm)
	// matchExpressions / values order, policies order, policyTypes order, container ports order
	fw.Explore(r, "unordered/selectors-and-documents", fw.Full, func(c *fw.Ctx) permCase {
		kind := c.Choose(5, "permute: values of In | matchExpressions | two policies | policyTypes | containers' ports")
		dir := fw.Pick(c, []string{"Ingress", "Egress"}, "direction")
		ri := c.Choose(len(rules), "second rule")
		c.Stride(map[bool]int{true: 3, false: 1}[q])
		selA := &wm.Sel{ML: map[string]string{"a": "b"}, ME: []wm.Req{{Key: "app", Op: "In", Vals: []string{"x", "z", "y"}}, {Key: "tier", Op: "Exists"}, {Key: "env", Op: "NotIn", Vals: []string{"p", "q"}}}}
		selB := &wm.Sel{ML: map[string]string{"a": "b"}, ME: []wm.Req{{Key: "app", Op: "In", Vals: []string{"x", "z", "y"}}, {Key: "tier", Op: "Exists"}, {Key: "env", Op: "NotIn", Vals: []string{"p", "q"}}}}
		switch kind {
		case 0:
			selB.ME[0].Vals = []string{"y", "x", "z"}
			selB.ME[2].Vals = []string{"q", "p"}
		case 1:
			selB.ME = []wm.Req{selA.ME[2], selA.ME[0], selA.ME[1]}
		}
		mk := func(sel *wm.Sel, second bool) *wm.World {
			w := baseWorld()
			rl := wm.NPRule{Peers: []wm.NPPeer{{NSSel: wm.ML("team", "q"), Pod: sel}}, Ports: []wm.NPPort{{HasPort: true, Num: 80}}}
			np := wm.NP{NS: "ns1", Name: "p", PodSel: *wm.ML("app", "a"), Types: []string{"Ingress", "Egress"}}
			np2 := wm.NP{NS: "ns1", Name: "q", PodSel: wm.Sel{}, Types: []string{"Egress", "Ingress"}}
			if dir == "Ingress" {
				np.Ingress, np2.Ingress = []wm.NPRule{rl}, []wm.NPRule{rules[ri]}
			} else {
				np.Egress, np2.Egress = []wm.NPRule{rl}, []wm.NPRule{rules[ri]}
			}
			w.NPs = []wm.NP{np, np2}
			if second {
				switch kind {
				case 2:
					w.NPs = []wm.NP{np2, np}
				case 3:
					w.NPs[0].Types, w.NPs[1].Types = []string{"Egress", "Ingress"}, []string{"Ingress", "Egress"}
				case 4:
					w.WLs[0].Ports = []wm.CPort{{Name: "x2", Num: 9000}, {Name: "web", Num: 8000}}
				}
			} else if kind == 4 {
				w.WLs[0].Ports = []wm.CPort{{Name: "web", Num: 8000}, {Name: "x2", Num: 9000}}
			}
			return w
		}
		return permCase{mk(selA, false), mk(selB, true), []string{"permuting the values of In / NotIn", "permuting matchExpressions", "swapping two policies", "permuting policyTypes", "permuting container ports"}[kind]}
	}, evalPerm)
}

// ---------- (b2) document permutations and file partitions (on disk) ----------

type layoutCase struct {
	wi    int
	perm  []int
	split int // 0: one file; 1: one file per document; k>=2: two files, split before position k-1
	names int // file-name scheme
	desc  string
}

type layoutWorld struct {
	w     *wm.World
	docs  []string
	eval  [][2]string
	admin bool
}

var layoutWorlds []layoutWorld
var layoutBase [][]Output
var layoutOther string
var layoutSeq atomic.Int64

func buildLayoutWorlds() {
	nss := wm.NS{Name: "ns1", Labels: map[string]string{"team": "a"}, HasObj: true}
	pod := func(ns, name string, l map[string]string) wm.Workload {
		return wm.Workload{Kind: "Pod", NS: ns, Name: name, Labels: l, Ports: []wm.CPort{{Name: "http", Num: 80}}}
	}
	np := wm.NP{NS: "ns1", Name: "p", PodSel: *wm.ML("app", "a"), Types: []string{"Ingress"}, Ingress: []wm.NPRule{{Peers: []wm.NPPeer{{Pod: wm.ML("app", "b")}, {CIDR: "10.0.0.0/8"}}, Ports: []wm.NPPort{{HasPort: true, Name: "http"}}}}}
	// {ns team=a, pod app=b} is satisfied by the real pb in ns1 (team=a): its representative is removed only if the namespace labels are known
	np2 := wm.NP{NS: "ns1", Name: "q", PodSel: wm.Sel{}, Types: []string{"Egress"}, Egress: []wm.NPRule{{Peers: []wm.NPPeer{{NSSel: all, Pod: wm.ML("role", "mon")}, {Pod: wm.ML("app", "a")}, {NSSel: wm.ML("team", "a"), Pod: wm.ML("app", "b")}}, Ports: []wm.NPPort{{HasPort: true, Num: 80}}}}}
	p80 := []wm.APort{{Kind: "num", Proto: "TCP", Num: 80}}
	allow := wm.ANP{Name: "zz-allow", Prio: 3, Subject: wm.APeer{Namespaces: all}, Ingress: []wm.ARule{{Action: "Allow", Peers: []wm.APeer{{Namespaces: all}}, Ports: &p80}}}
	deny := wm.ANP{Name: "aa-deny", Prio: 9, Subject: wm.APeer{Namespaces: all}, Ingress: []wm.ARule{{Action: "Deny", Peers: []wm.APeer{{Namespaces: all}}}}}
	ws := []*wm.World{
		{NSs: []wm.NS{nss}, WLs: []wm.Workload{pod("ns1", "pa", map[string]string{"app": "a"}), pod("ns1", "pb", map[string]string{"app": "b"})}, NPs: []wm.NP{np, np2}},
		{WLs: []wm.Workload{pod("ns1", "pa", map[string]string{"app": "a"}), pod("ns2", "pb", map[string]string{"app": "b"}), {Kind: "Deployment", NS: "ns1", Name: "d", Labels: map[string]string{"app": "b"}, Replicas: 2}}, NPs: []wm.NP{np}},
		{NSs: []wm.NS{nss}, WLs: []wm.Workload{pod("ns1", "pa", map[string]string{"app": "a"}), pod("ns1", "pb", map[string]string{"app": "b"})}, ANPs: []wm.ANP{deny, allow}},
		{WLs: []wm.Workload{{Kind: "Deployment", NS: "ns1", Name: "w", Labels: map[string]string{"app": "b"}, Ports: []wm.CPort{{Name: "http", Num: 80}}, Replicas: 1}, pod("ns1", "pa", map[string]string{"app": "a"})},
			NPs: []wm.NP{np}, Svcs: []wm.Svc{{NS: "ns1", Name: "s", Sel: map[string]string{"app": "b"}, Ports: []wm.SvcPort{{Port: 80}}}}, Ings: []wm.Ing{{NS: "ns1", Name: "i", Default: &wm.Backend{Svc: "s", PortNum: 80}}}},
	}
	npAllIP := wm.NP{NS: "ns1", Name: "all-from-ip", PodSel: *wm.ML("app", "a"), Types: []string{"Ingress"}, Ingress: []wm.NPRule{{Peers: []wm.NPPeer{{CIDR: "0.0.0.0/0"}}}}}
	npCluster := wm.NP{NS: "ns1", Name: "cluster-8080", PodSel: wm.Sel{}, Types: []string{"Ingress"}, Ingress: []wm.NPRule{{Peers: []wm.NPPeer{{NSSel: all}}, Ports: []wm.NPPort{{HasPort: true, Num: 8080}}}}}
	ws = append(ws, &wm.World{WLs: []wm.Workload{pod("ns1", "pa", map[string]string{"app": "a"}), pod("ns1", "pb", map[string]string{"app": "b"})}, NPs: []wm.NP{npAllIP, npCluster}})
	for _, w := range ws {
		lw := layoutWorld{w: w, docs: w.YAMLDocs(), admin: len(w.ANPs) > 0}
		var pods []string
		for _, wl := range w.WLs {
			if wl.Kind == "Pod" {
				pods = append(pods, wl.NS+"/"+wl.Name)
			}
		}
		if len(pods) >= 2 {
			lw.eval = [][2]string{{pods[0], pods[1]}, {pods[1], pods[0]}}
		}
		layoutWorlds = append(layoutWorlds, lw)
	}
}

func layoutFiles(lw layoutWorld, perm []int, split, names int) map[string]string {
	var docs []string
	for _, i := range perm {
		docs = append(docs, lw.docs[i])
	}
	n1, n2 := "a.yaml", "b.yaml"
	switch names {
	case 1:
		n1, n2 = "z.yaml", "b.yml"
	case 2:
		n1, n2 = "sub/x.yaml", "0.yaml"
	}
	files := map[string]string{}
	switch {
	case split == 0:
		files[n1] = strings.Join(docs, "---\n")
	case split == 1:
		for i, d := range docs {
			name := fmt.Sprintf("%c-doc.yaml", 'a'+i)
			if names == 1 {
				name = fmt.Sprintf("%c-doc.yaml", 'z'-i)
			} else if names == 2 {
				name = fmt.Sprintf("d%d/doc.yaml", (i*3)%len(docs))
			}
			files[name] = d
		}
	default:
		k := split - 1
		files[n1] = strings.Join(docs[:k], "---\n")
		files[n2] = strings.Join(docs[k:], "---\n")
	}
	return files
}

func evalLayout(cs layoutCase, x *fw.Rec) {
	lw := layoutWorlds[cs.wi]
	files := layoutFiles(lw, cs.perm, cs.split, cs.names)
	x.Describe(func() any { return map[string]any{"layout": cs.desc, "world": lw.w.Brief(), "files": files} })
	dir := filepath.Join(fw.Scratch, fmt.Sprintf("c08-l%d", layoutSeq.Add(1)))
	defer os.RemoveAll(dir)
	if err := writeFiles(dir, files); err != nil {
		x.Fail("harness: cannot write layout", "", err.Error())
		return
	}
	got := DirOutputs(dir, layoutOther, lw.admin, lw.eval)
	compare(layoutBase[cs.wi], got, lw.w, "another order / file partition of the same documents", x)
	x.Outcome(outcomeKey(got))
	x.Nontrivial(cs.desc)
	if cs.split > 1 {
		x.Sample(map[string]any{"layout": cs.desc, "world": lw.w.Brief()})
	}
	x.AddStates(1)
	x.AddTransitions(int64(len(got)))
}

func permFromChoices(c *fw.Ctx, n int) []int {
	rest := make([]int, n)
	for i := range rest {
		rest[i] = i
	}
	var p []int
	for len(rest) > 0 {
		i := c.Choose(len(rest), "next document")
		p = append(p, rest[i])
		rest = append(rest[:i], rest[i+1:]...)
	}
	return p
}

func runLayouts(r *fw.Run) {
	buildLayoutWorlds()
	layoutOther = filepath.Join(fw.Scratch, "c08-other")
	o := &wm.World{WLs: []wm.Workload{{Kind: "Pod", NS: "ns1", Name: "pa", Labels: map[string]string{"app": "a"}}, {Kind: "Deployment", NS: "ns1", Name: "w9", Labels: map[string]string{"app": "z"}, Replicas: 1}}}
	writeFiles(layoutOther, map[string]string{"all.yaml": strings.Join(o.YAMLDocs(), "---\n")})
	for wi, lw := range layoutWorlds {
		d := filepath.Join(fw.Scratch, fmt.Sprintf("c08-base%d", wi))
		id := make([]int, len(lw.docs))
		for i := range id {
			id[i] = i
		}
		writeFiles(d, layoutFiles(lw, id, 0, 0))
		b1 := DirOutputs(d, layoutOther, lw.admin, lw.eval)
		b2 := DirOutputs(d, layoutOther, lw.admin, lw.eval)
		for i := range b1 {
			if b1[i].Text != b2[i].Text {
				r.HarnessError("canonical layout of world %d is not reproducible for %s (nondeterminism shows without any reordering)", wi, b1[i].Name)
			}
		}
		layoutBase = append(layoutBase, b1)
	}
	q := r.Quick()
	fw.Explore(r, "layout/permutations-and-partitions", fw.Full, func(c *fw.Ctx) layoutCase {
		wi := c.Choose(len(layoutWorlds), "world")
		n := len(layoutWorlds[wi].docs)
		perm := permFromChoices(c, n)
		split := c.Choose(n+1, "files: one | one per document | split before position k")
		names := c.Choose(3, "file names")
		c.Stride(map[bool]int{true: 9, false: 1}[q])
		return layoutCase{wi, perm, split, names, fmt.Sprintf("world=%d order=%v split=%d names=%d", wi, perm, split, names)}
	}, evalLayout)
}

// ---------- (c) free-running repeats of the plain CLI (runtime's own random map order) ----------

type repeatCase struct {
	wi     int
	args   []string
	desc   string
	diffTo string
}

func runRepeats(r *fw.Run) {
	bin := os.Getenv("VERIF_CLI_BIN")
	if bin == "" {
		r.HarnessError("VERIF_CLI_BIN is not set (run through run.sh)")
		return
	}
	n := 12
	if !r.Quick() {
		n = 60
	}
	r.Bounds["free_running_repeats_per_command"] = n
	fw.Explore(r, "free-running-repeats", fw.Full, func(c *fw.Ctx) repeatCase {
		wi := c.Choose(len(layoutWorlds), "world")
		cmd := c.Choose(2, "list | diff")
		dir := filepath.Join(fw.Scratch, fmt.Sprintf("c08-base%d", wi))
		if cmd == 0 {
			f := fw.Pick(c, listFormats, "-o")
			exp := c.Choose(2, "--exposure") == 1
			if exp && layoutWorlds[wi].admin {
				c.Skip()
			}
			args := []string{"list", "--dirpath", dir, "-o", f, "-q"}
			if exp {
				args = append(args, "--exposure")
			}
			return repeatCase{wi: wi, args: args, desc: fmt.Sprintf("world=%d list -o %s exposure=%v", wi, f, exp)}
		}
		f := fw.Pick(c, diffFormats, "-o")
		return repeatCase{wi: wi, args: []string{"diff", "--dir1", dir, "--dir2", layoutOther, "-o", f, "-q"}, desc: fmt.Sprintf("world=%d diff -o %s", wi, f)}
	}, func(cs repeatCase, x *fw.Rec) {
		x.Describe(func() any {
			return map[string]any{"command": strings.Join(cs.args, " "), "world": layoutWorlds[cs.wi].w.Brief()}
		})
		var first []byte
		for i := 0; i < n; i++ {
			out, err := exec.Command(bin, cs.args...).Output()
			if err != nil {
				x.Fail("harness: the CLI fails on a layout world", "", fmt.Sprintf("%s: %v", cs.desc, err))
				return
			}
			if i == 0 {
				first = out
			} else if string(out) != string(first) {
				x.Fail("two runs of the same command on the same input print different bytes: "+cmdClass(cs.desc[strings.Index(cs.desc, " ")+1:]), "",
					fmt.Sprintf("%s (run 1 vs run %d)\n--- run 1\n%s\n--- run %d\n%s", cs.desc, i+1, clip(string(first)), i+1, clip(string(out))))
				return
			}
		}
		x.Outcome(string(first))
		x.Nontrivial(cs.desc)
		x.AddStates(int64(n))
		x.AddTransitions(int64(n))
		x.Count("free_running_cli_runs", int64(n))
	})
}

func Run(r *fw.Run) {
	r.Rule = "(a) schedules: every range over a map in pkg/ is a scheduler choice point (source-to-source overlay); for each world all schedules with <=1 deviating range execution (thorough: <=2) are executed and every command/format output is compared byte-for-byte with the canonical schedule; (b) input order: all permutations of semantically unordered lists (rules of a policy, peers / ports of a rule, matchExpressions, values, policies, policyTypes, container ports) over the exposure alphabet, and all document permutations x file partitions x file-name schemes of small worlds on disk; (c) the plain (un-instrumented) CLI binary is run 12 (thorough 60) times per command/format on the layout worlds under the runtime's own random map order and must print identical bytes; states = executions (schedules / layouts), transitions = outputs compared"
	r.Assume = []string{"maps iterated inside dependencies (apimachinery, encoding/json, fmt) are not instrumented; the canonical run of every world is executed twice and must reproduce byte-identically",
		"alternatives per dynamic range execution over n keys: all n!-1 other orders for n<=3, else reverse, rotate-by-one and move-element-i-to-front",
		"only returned strings / verdicts are compared; logs and the order of Errors() are not"}
	if r.Quick() {
		r.SetBudget(300 * time.Second)
	} else {
		r.SetBudget(40 * time.Minute)
	}
	// read the wording of the documented error off the tree once, before any schedule is installed (the probe is an
	// analysis of its own and must not consume scheduler choices)
	wm.NamedPortOnIPErrSignature()
	if !r.IsWorker() {
		runUnordered(r)
		runLayouts(r)
		runRepeats(r)
	}
	runSchedules(r)
}
