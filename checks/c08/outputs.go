// Package c08: output is deterministic and independent of the order of the input.
package c08

import (
	"fmt"
	"os"
	"path/filepath"
	"sort"
	"strings"

	"k8s.io/apimachinery/pkg/runtime"
	"k8s.io/apimachinery/pkg/types"
	"k8s.io/cli-runtime/pkg/resource"

	"github.com/np-guard/netpol-analyzer/pkg/cli"
	"github.com/np-guard/netpol-analyzer/pkg/manifests/parser"
	"github.com/np-guard/netpol-analyzer/pkg/netpol/connlist"
	"github.com/np-guard/netpol-analyzer/pkg/netpol/diff"
	"github.com/np-guard/netpol-analyzer/pkg/netpol/eval"

	"verif/parse"
	"verif/wm"
)

// Output is one observable result: the bytes of a command/format, or the error text.
type Output struct {
	Name string
	Text string
}

var listFormats = []string{"txt", "json", "csv", "md", "dot"}
var diffFormats = []string{"txt", "csv", "md", "dot"}

// AllOutputs runs every command and format on the infos: list x 5 formats x exposure on/off (off only
// when admin policies are present), diff against other in 4 formats (both positions), and eval
// verdicts for the given pod pairs (engine loaded in document order, as the CLI does).
func AllOutputs(infos, other []*resource.Info, admin bool, evalPairs [][2]string) []Output {
	var res []Output
	for _, exp := range []bool{false, true} {
		if exp && admin {
			continue
		}
		for _, f := range listFormats {
			opts := []connlist.ConnlistAnalyzerOption{connlist.WithLogger(wm.Quiet()), connlist.WithMuteErrsAndWarns(), connlist.WithOutputFormat(f)}
			if exp {
				opts = append(opts, connlist.WithExposureAnalysis())
			}
			ca := connlist.NewConnlistAnalyzer(opts...)
			name := fmt.Sprintf("list -o %s exposure=%v", f, exp)
			conns, _, err := ca.ConnlistFromResourceInfos(infos)
			if err != nil {
				res = append(res, Output{name, "ERROR: " + err.Error()})
				continue
			}
			out, err := ca.ConnectionsListToString(conns)
			if err != nil {
				out = "ERROR: " + err.Error()
			}
			res = append(res, Output{name, out})
		}
	}
	if len(evalPairs) > 0 {
		// eval: an engine filled object by object (as the CLI does), every pair on numbered and named ports
		pe := eval.NewPolicyEngine()
		pe.VerifCacheDebug(false)
		objs, _ := parser.ResourceInfoListToK8sObjectsList(infos, wm.Quiet(), true)
		loadErr := ""
		for i := range objs {
			var o runtime.Object
			switch objs[i].Kind {
			case parser.Namespace:
				o = objs[i].Namespace
			case parser.Pod:
				o = objs[i].Pod
			case parser.NetworkPolicy:
				o = objs[i].NetworkPolicy
			case parser.Deployment:
				o = objs[i].Deployment
			case parser.AdminNetworkPolicy:
				o = objs[i].AdminNetworkPolicy
			case parser.BaselineAdminNetworkPolicy:
				o = objs[i].BaselineAdminNetworkPolicy
			default:
				continue
			}
			if err := pe.InsertObject(o); err != nil {
				loadErr = err.Error()
			}
		}
		var sb strings.Builder
		sb.WriteString("load: " + loadErr + "\n")
		for _, pr := range evalPairs {
			for _, q := range [][2]string{{"tcp", "80"}, {"tcp", "8080"}, {"udp", "53"}, {"tcp", "http"}} {
				v, err := pe.CheckIfAllowed(pr[0], pr[1], q[0], q[1])
				es := ""
				if err != nil {
					es = " error: " + err.Error()
				}
				fmt.Fprintf(&sb, "%s => %s over %s/%s: %v%s\n", pr[0], pr[1], q[0], q[1], v, es)
			}
		}
		res = append(res, Output{"eval", sb.String()})
	}
	if other != nil {
		for _, f := range diffFormats {
			for pos, pair := range [][2][]*resource.Info{{infos, other}, {other, infos}} {
				da := diff.NewDiffAnalyzer(diff.WithLogger(wm.Quiet()), diff.WithOutputFormat(f))
				name := fmt.Sprintf("diff -o %s (as dir%d)", f, pos+1)
				d, err := da.ConnDiffFromResourceInfos(pair[0], pair[1])
				if err != nil {
					res = append(res, Output{name, "ERROR: " + err.Error()})
					continue
				}
				out, err := da.ConnectivityDiffToString(d)
				if err != nil {
					out = "ERROR: " + err.Error()
				}
				res = append(res, Output{name, out})
			}
		}
	}
	return res
}

// DirOutputs: the same commands through the directory API (list, diff) and the eval loader of the CLI.
func DirOutputs(dir, otherDir string, admin bool, evalPairs [][2]string) []Output {
	var res []Output
	for _, exp := range []bool{false, true} {
		if exp && admin {
			continue
		}
		for _, f := range listFormats {
			opts := []connlist.ConnlistAnalyzerOption{connlist.WithLogger(wm.Quiet()), connlist.WithMuteErrsAndWarns(), connlist.WithOutputFormat(f)}
			if exp {
				opts = append(opts, connlist.WithExposureAnalysis())
			}
			ca := connlist.NewConnlistAnalyzer(opts...)
			name := fmt.Sprintf("list -o %s exposure=%v", f, exp)
			conns, _, err := ca.ConnlistFromDirPath(dir)
			if err != nil {
				res = append(res, Output{name, "ERROR: " + err.Error()})
				continue
			}
			out, err := ca.ConnectionsListToString(conns)
			if err != nil {
				out = "ERROR: " + err.Error()
			}
			res = append(res, Output{name, out})
		}
	}
	if otherDir != "" {
		for _, f := range diffFormats {
			for pos, pair := range [][2]string{{dir, otherDir}, {otherDir, dir}} {
				da := diff.NewDiffAnalyzer(diff.WithLogger(wm.Quiet()), diff.WithOutputFormat(f))
				name := fmt.Sprintf("diff -o %s (as dir%d)", f, pos+1)
				d, err := da.ConnDiffFromDirPaths(pair[0], pair[1])
				if err != nil {
					res = append(res, Output{name, "ERROR: " + errText(err.Error(), dir)})
					continue
				}
				out, err := da.ConnectivityDiffToString(d)
				if err != nil {
					out = "ERROR: " + err.Error()
				}
				res = append(res, Output{name, out})
			}
		}
	}
	for _, p := range evalPairs {
		var names []types.NamespacedName
		for _, n := range []string{p[1], p[0]} {
			if i := strings.Index(n, "/"); i > 0 {
				names = append(names, types.NamespacedName{Namespace: n[:i], Name: n[i+1:]})
			}
		}
		pe, err := cli.VerifEvalLoad(dir, names, false)
		name := fmt.Sprintf("eval %s -> %s tcp/80", p[0], p[1])
		if err != nil {
			res = append(res, Output{name, "ERROR: " + errText(err.Error(), dir)})
			continue
		}
		pe.VerifCacheDebug(false)
		v, err := pe.CheckIfAllowed(p[0], p[1], "tcp", "80")
		if err != nil {
			res = append(res, Output{name, "ERROR: " + err.Error()})
			continue
		}
		res = append(res, Output{name, fmt.Sprintf("%s => %s over tcp/80: %t", p[0], p[1], v)})
	}
	return res
}

// errText drops the scratch directory name from an error text.
func errText(s, dir string) string { return strings.ReplaceAll(s, dir, "<dir>") }

// ---------- known-finding classifiers ----------

// canonSelectors rewrites every representative-selector spelling "... with {...}" to a canonical one.
func canonSelectors(s string) string {
	var b strings.Builder
	for {
		i := strings.Index(s, " with {")
		if i < 0 {
			b.WriteString(s)
			return b.String()
		}
		start := i + len(" with {")
		depth, j := 1, start
		for j < len(s) && depth > 0 {
			switch s[j] {
			case '{':
				depth++
			case '}':
				depth--
			}
			j++
		}
		body := s[start : j-1]
		sel, err := parse.ParseSelBody(body)
		b.WriteString(s[:start])
		if err != nil {
			b.WriteString(body)
		} else {
			// canonical spelling: single-value In as an equality, values of an expression sorted, equalities sorted by key;
			// the order of the expressions is kept as printed (the tool sorts them; an order that leaks is not a matter of spelling)
			var me []string
			for _, e := range sel.ME {
				p := strings.SplitN(e, "|", 3)
				if p[1] == "In" && !strings.Contains(p[2], " ") && p[2] != "" {
					if _, dup := sel.ML[p[0]]; !dup {
						sel.ML[p[0]] = p[2]
						continue
					}
				}
				me = append(me, e)
			}
			var ks []string
			for k, v := range sel.ML {
				ks = append(ks, k+"="+v)
			}
			sort.Strings(ks)
			b.WriteString(strings.Join(ks, ",") + ";" + strings.Join(me, ";"))
		}
		b.WriteString("}")
		s = s[j:]
	}
}

// sameUpToSelectorSpelling: defect model of the recorded finding "of two rule selectors that are
// equal as selectors but spelled differently the first one met is printed": the two outputs carry
// the same lines once every selector is rewritten to a canonical spelling (line order may follow the spelling).
func sameUpToSelectorSpelling(a, b string) bool {
	norm := func(s string) string {
		ls := strings.Split(canonSelectors(s), "\n")
		for i := range ls {
			// csv quotes a field only if its spelling contains a comma; column padding follows the longest spelling
			ls[i] = strings.Join(strings.Fields(strings.ReplaceAll(ls[i], "\"", "")), " ")
		}
		sort.Strings(ls)
		return strings.Join(ls, "\n")
	}
	raw := func(s string) string {
		ls := strings.Split(s, "\n")
		sort.Strings(ls)
		return strings.Join(ls, "\n")
	}
	if raw(a) == raw(b) {
		return false // the same lines in another order: not a matter of spelling
	}
	return a != b && norm(a) == norm(b)
}

func writeFiles(dir string, files map[string]string) error {
	for n, c := range files {
		p := filepath.Join(dir, n)
		if err := os.MkdirAll(filepath.Dir(p), 0o755); err != nil {
			return err
		}
		if err := os.WriteFile(p, []byte(c), 0o644); err != nil {
			return err
		}
	}
	return nil
}
