package c08

import "verif/fw"

// runSchedules is replaced by the instrumented build (see sched.go, build tag verif_mapsched).
var runSchedules = func(r *fw.Run) {}
