// Package c07: exposure analysis is complete - no potential connection is unreported.
package c07

import (
	"strings"
	"time"

	"verif/checks/expo"
	"verif/fw"
	"verif/wm"
)

func init() { fw.Register("C07", "exploration", Run) }

func Run(r *fw.Run) {
	r.Rule = "same worlds and hypothetical-pod quotient as C06; for every workload protected in a direction, every class of hypothetical pods and every port cell: a connection the reference allows (through a non-exempt rule peer) must be claimed by the entire-cluster entry or by a reported entry whose selectors the pod satisfies; non-trivial = at least one exposure entry reported; distinct = distinct exposure reports"
	r.Assume = []string{"finite quotient of hypothetical pods as in C06",
		"documented omission: a rule peer whose pod and namespace selectors are matchLabels-only, non-empty (nil namespaceSelector = policy namespace) and satisfied by an existing workload in a namespace whose labels satisfy the namespace part"}
	if r.Quick() {
		r.SetBudget(300 * time.Second)
	} else {
		r.SetBudget(30 * time.Minute)
	}
	for _, sc := range append(expo.Scopes(r.Quick()), expo.DigitNamespaceScope(r.Quick())) {
		fw.Explore(r, sc.Name, fw.Full, sc.Gen, func(w *wm.World, x *fw.Rec) {
			res := expo.Check(w)
			x.Describe(expo.Describe(w))
			x.Outcome(res.Outcome)
			x.Count("hypothetical_pod_classes", int64(res.Hyps))
			x.Count("points_judged", res.PointsJudged)
			if len(res.Incomplete) > 0 {
				x.Fail("unreported potential connection: "+expo.ClassOf(res.Incomplete[0]), "", expo.DetailOf(expo.First(res.Incomplete, 4)))
			}
			if res.Entries > 0 && res.Skipped == "" {
				x.Nontrivial(res.Outcome)
				x.Sample(map[string]any{"world": w.Brief(), "exposure": expo.First(strings.Split(res.Outcome, ";"), 6), "hypothetical_pod_classes": res.Hyps})
			}
		})
	}
}
