// Package c15: PolicyEngine answers depend on the current objects only, not on the update history.
// Explicit-state breadth-first search over operation histories of the real engine; states are
// de-duplicated by a canonical dump of every private field (overlay hook VerifDump); successor =
// fresh engine + replay of the history + one operation.
package c15

import (
	"crypto/sha1"
	"encoding/json"
	"fmt"
	"runtime/debug"
	"sort"
	"strings"
	"sync"
	"sync/atomic"
	"time"

	appsv1 "k8s.io/api/apps/v1"
	corev1 "k8s.io/api/core/v1"
	netv1 "k8s.io/api/networking/v1"
	metav1 "k8s.io/apimachinery/pkg/apis/meta/v1"
	"k8s.io/apimachinery/pkg/runtime"

	"github.com/np-guard/netpol-analyzer/pkg/netpol/eval"

	"verif/fw"
	"verif/wm"
)

func init() { fw.Register("C15", "model_checking", Run) }

type obj struct {
	kind, key string // key: kind/ns/name
	variant   string
	ns        *wm.NS
	pod       *wm.Workload
	owner     string
	np        *wm.NP
	anp       *wm.ANP
	banp      *wm.ANP
	second    bool // object of the second (restricted) alphabet only
}

func (o obj) k8s() runtime.Object {
	switch {
	case o.ns != nil:
		return &corev1.Namespace{ObjectMeta: metav1.ObjectMeta{Name: o.ns.Name, Labels: o.ns.Labels}}
	case o.pod != nil:
		t := true
		var cps []corev1.ContainerPort
		for _, cp := range o.pod.Ports {
			cps = append(cps, corev1.ContainerPort{Name: cp.Name, ContainerPort: int32(cp.Num), Protocol: corev1.Protocol(cp.Proto)})
		}
		if o.pod.Kind == "Deployment" {
			var repl *int32
			if o.pod.Replicas > 1 {
				r := int32(o.pod.Replicas)
				repl = &r
			}
			return &appsv1.Deployment{TypeMeta: metav1.TypeMeta{Kind: "Deployment", APIVersion: "apps/v1"}, ObjectMeta: metav1.ObjectMeta{Name: o.pod.Name, Namespace: o.pod.NS},
				Spec: appsv1.DeploymentSpec{Replicas: repl, Template: corev1.PodTemplateSpec{ObjectMeta: metav1.ObjectMeta{Labels: o.pod.Labels},
					Spec: corev1.PodSpec{Containers: []corev1.Container{{Name: "c", Ports: cps}}}}}}
		}
		p := &corev1.Pod{ObjectMeta: metav1.ObjectMeta{Name: o.pod.Name, Namespace: o.pod.NS, Labels: o.pod.Labels},
			Spec:   corev1.PodSpec{Containers: []corev1.Container{{Name: "c", Ports: cps}}},
			Status: corev1.PodStatus{HostIP: "192.168.1.1", PodIPs: []corev1.PodIP{{IP: "10.0.0.1"}}}}
		if o.owner != "" {
			p.OwnerReferences = []metav1.OwnerReference{{Kind: "ReplicaSet", Name: o.owner, APIVersion: "apps/v1", Controller: &t}}
		}
		return p
	case o.np != nil:
		return o.np.K8s()
	case o.anp != nil:
		return o.anp.K8s()
	case o.banp != nil:
		return o.banp.K8sB()
	}
	panic("obj")
}

type op struct {
	name   string
	insert bool
	byPtr  bool
	o      obj
	second bool // operation of the second (restricted) alphabet only
	query  *[4]string
	bulk   []obj // SetResources(policies, pods, namespaces) with these objects
	clear  bool  // ClearResources()
}

var all = &wm.Sel{}

func objects() []obj {
	mkpod := func(variant, ns, name, owner string, labels map[string]string, http int) obj {
		return obj{kind: "Pod", key: "Pod/" + ns + "/" + name, variant: variant, owner: owner,
			pod: &wm.Workload{Kind: "Pod", NS: ns, Name: name, Labels: labels, Ports: []wm.CPort{{Name: "http", Num: http}}}}
	}
	allow := wm.ARule{Action: "Allow", Peers: []wm.APeer{{Namespaces: all}}, Ports: &[]wm.APort{{Kind: "num", Proto: "TCP", Num: 80}}}
	deny := wm.ARule{Action: "Deny", Peers: []wm.APeer{{Namespaces: all}}}
	subjB := wm.APeer{Namespaces: wm.ML(wm.NSNameKey, "default")}
	return []obj{
		{kind: "Namespace", key: "Namespace//a", variant: "team=x", ns: &wm.NS{Name: "a", Labels: map[string]string{"team": "x"}, HasObj: true}},
		{kind: "Namespace", key: "Namespace//a", variant: "team=y", ns: &wm.NS{Name: "a", Labels: map[string]string{"team": "y"}, HasObj: true}},
		{kind: "Namespace", key: "Namespace//a", variant: "nolabels", ns: &wm.NS{Name: "a", Labels: map[string]string{}, HasObj: true}},
		{kind: "Namespace", key: "Namespace//default", variant: "", ns: &wm.NS{Name: "default", Labels: map[string]string{}, HasObj: true}},
		mkpod("app=a", "a", "p1", "rs1", map[string]string{"app": "a"}, 80),
		mkpod("app=c", "a", "p1", "rs1", map[string]string{"app": "c"}, 80),
		mkpod("app=a", "a", "p2", "rs1", map[string]string{"app": "a"}, 80),
		mkpod("http80", "default", "p3", "rs2", map[string]string{"app": "b"}, 80),
		mkpod("http8080", "default", "p3", "rs2", map[string]string{"app": "b"}, 8080),
		mkpod("noowner", "default", "p4", "", map[string]string{"app": "b"}, 80),
		// a second pod of owner rs2 with the same labels as p3 but another number behind the port name (a rolling update in progress)
		mkpod("http8080", "default", "p5", "rs2", map[string]string{"app": "b"}, 8080),
		// a workload object (InsertObject accepts them; DeleteObject does not, so there is no delete operation for it); its pod is default/d1-1
		{kind: "Deployment", key: "Deployment/default/d1", variant: "http80", pod: &wm.Workload{Kind: "Deployment", NS: "default", Name: "d1", Labels: map[string]string{"app": "b"}, Ports: []wm.CPort{{Name: "http", Num: 80}}}},
		// the same Deployment with two replicas: going back to one replica must take the second pod away again
		{kind: "Deployment", key: "Deployment/default/d1", variant: "http80x2", pod: &wm.Workload{Kind: "Deployment", NS: "default", Name: "d1", Labels: map[string]string{"app": "b"}, Ports: []wm.CPort{{Name: "http", Num: 80}}, Replicas: 2}},
		{kind: "Deployment", key: "Deployment/default/d1", variant: "http8080", pod: &wm.Workload{Kind: "Deployment", NS: "default", Name: "d1", Labels: map[string]string{"app": "b"}, Ports: []wm.CPort{{Name: "http", Num: 8080}}}},
		{kind: "NetworkPolicy", key: "NetworkPolicy/default/n1", variant: "v1-namespace-omitted", np: &wm.NP{NS: "", Name: "n1", PodSel: wm.Sel{}, Types: []string{"Ingress"},
			Ingress: []wm.NPRule{{Peers: []wm.NPPeer{{NSSel: wm.ML("team", "x"), Pod: wm.ML("app", "a")}}, Ports: []wm.NPPort{{HasPort: true, Name: "http"}}}}}},
		{kind: "NetworkPolicy", key: "NetworkPolicy/default/n1", variant: "v2", np: &wm.NP{NS: "default", Name: "n1", PodSel: wm.Sel{}, Types: []string{"Ingress"},
			Ingress: []wm.NPRule{{Ports: []wm.NPPort{{HasPort: true, Num: 8080}}}}}},
		{kind: "NetworkPolicy", key: "NetworkPolicy/a/n2", variant: "", np: &wm.NP{NS: "a", Name: "n2", PodSel: *wm.ML("app", "a"), Types: []string{"Egress"},
			Egress: []wm.NPRule{{Peers: []wm.NPPeer{{NSSel: all}}, Ports: []wm.NPPort{{HasPort: true, Num: 80}}}}}},
		// policyTypes omitted: the policy governs egress because it has egress rules
		{kind: "NetworkPolicy", key: "NetworkPolicy/a/n2", variant: "types-omitted", np: &wm.NP{NS: "a", Name: "n2", PodSel: *wm.ML("app", "a"),
			Egress: []wm.NPRule{{Peers: []wm.NPPeer{{NSSel: all}}, Ports: []wm.NPPort{{HasPort: true, Num: 8080}}}}}},
		// second alphabet: two pods without owner in one namespace that a policy tells apart, and a second policy next to n1
		func() obj {
			o := mkpod("noowner-app=z", "default", "p6", "", map[string]string{"app": "z"}, 80)
			o.second = true
			return o
		}(),
		{kind: "NetworkPolicy", key: "NetworkPolicy/default/n3", variant: "deny-app=b", second: true, np: &wm.NP{NS: "default", Name: "n3", PodSel: *wm.ML("app", "b"), Types: []string{"Ingress"}}},
		{kind: "ANP", key: "ANP//a5", variant: "allow80@5", anp: &wm.ANP{Name: "a5", Prio: 5, Subject: subjB, Ingress: []wm.ARule{allow}}},
		{kind: "ANP", key: "ANP//a10", variant: "deny@10", anp: &wm.ANP{Name: "a10", Prio: 10, Subject: subjB, Ingress: []wm.ARule{deny}}},
		// a third ANP: removing one of three must keep the other two in priority order
		{kind: "ANP", key: "ANP//a20", variant: "allowall@20", anp: &wm.ANP{Name: "a20", Prio: 20, Subject: subjB, Ingress: []wm.ARule{{Action: "Allow", Peers: []wm.APeer{{Namespaces: all}}}}}},
		{kind: "BANP", key: "BANP//default", variant: "deny", banp: &wm.ANP{Name: "default", Subject: subjB, Ingress: []wm.ARule{deny}}},
	}
}

var queries = [][4]string{{"a/p1", "default/p3", "tcp", "80"}, {"a/p1", "default/p3", "tcp", "8080"}, {"a/p2", "default/p3", "tcp", "80"}, {"default/p3", "a/p1", "tcp", "80"}, {"a/p1", "default/p4", "tcp", "80"}, {"a/p1", "a/p2", "tcp", "8080"}, {"a/p1", "default/d1-1", "tcp", "80"}, {"a/p1", "default/p5", "tcp", "80"}, {"a/p1", "default/p3", "tcp", "http"}, {"a/p1", "default/d1-2", "tcp", "80"}}

// queriesSecond are asked as operations only in the second alphabet; the invariant evaluates them in every state.
var queriesSecond = [][4]string{{"a/p1", "default/p6", "tcp", "80"}, {"default/p4", "default/p6", "tcp", "80"}}

func allQueries() [][4]string {
	return append(append([][4]string{}, queries...), queriesSecond...)
}

// secondAlphabet: the operations explored from the last seed (everything about the owner-less pods and the policies of
// namespace default).
func secondAlphabet(all []op) []op {
	var res []op
	for _, o := range all {
		for _, k := range []string{"Pod/default/p4", "Pod/default/p6", "NetworkPolicy/default/n1", "NetworkPolicy/default/n3", "Namespace//default", "q:a/p1,default/p4", "q:a/p1,default/p6", "q:default/p4,default/p6", "q:a/p1,default/p3,tcp,80"} {
			if strings.Contains(o.name, k) {
				res = append(res, o)
				break
			}
		}
	}
	return res
}

// mainAlphabet: every operation that is not reserved to the second alphabet.
func mainAlphabet(all []op) []op {
	var res []op
	for _, o := range all {
		if !o.second {
			res = append(res, o)
		}
	}
	return res
}

func ops() []op {
	var res []op
	for _, o := range objects() {
		res = append(res, op{name: fmt.Sprintf("ins:%s#%s", o.key, o.variant), insert: true, o: o, second: o.second})
	}
	seen := map[string]bool{}
	for _, o := range objects() {
		if !seen[o.key] && o.kind != "Deployment" {
			seen[o.key] = true
			res = append(res, op{name: "del:" + o.key, o: o, second: o.second})
			if o.kind == "ANP" || o.kind == "NetworkPolicy" || o.kind == "Pod" && o.pod.Name == "p1" {
				res = append(res, op{name: "delptr:" + o.key, o: o, byPtr: true, second: o.second})
			}
		}
	}
	for i := range queries {
		q := queries[i]
		res = append(res, op{name: "q:" + strings.Join(q[:], ","), query: &q})
	}
	for i := range queriesSecond {
		q := queriesSecond[i]
		res = append(res, op{name: "q:" + strings.Join(q[:], ","), query: &q, second: true})
	}
	objs := objects()
	res = append(res, op{name: "setresources:nsA(team=y)+p3(http8080)+n1(v2)", bulk: []obj{objs[1], objs[8], objs[15]}}, op{name: "clearresources", clear: true})
	return res
}

// model of the current objects: key -> object variant
type model map[string]obj

func (m model) sortedKeys() []string {
	keys := make([]string, 0, len(m))
	for k := range m {
		keys = append(keys, k)
	}
	sort.Strings(keys)
	return keys
}

func (m model) world() *wm.World {
	w := &wm.World{}
	for _, k := range m.sortedKeys() {
		o := m[k]
		switch {
		case o.ns != nil:
			w.NSs = append(w.NSs, *o.ns)
		case o.pod != nil:
			w.WLs = append(w.WLs, *o.pod)
		case o.np != nil:
			np := *o.np
			if np.NS == "" {
				np.NS = "default"
			}
			w.NPs = append(w.NPs, np)
		case o.anp != nil:
			w.ANPs = append(w.ANPs, *o.anp)
		case o.banp != nil:
			w.BANP = o.banp
		}
	}
	return w
}

// fresh builds a new engine holding exactly the current objects, inserted in canonical order.
func (m model) fresh() (*eval.PolicyEngine, error) {
	pe := eval.NewPolicyEngine()
	pe.VerifCacheDebug(false)
	keys := m.sortedKeys()
	for _, kind := range []string{"Namespace", "Pod", "Deployment", "NetworkPolicy"} {
		for _, k := range keys {
			if m[k].kind == kind {
				if err := pe.InsertObject(m[k].k8s()); err != nil {
					return nil, err
				}
			}
		}
	}
	var anps []obj
	for _, k := range keys {
		if m[k].kind == "ANP" {
			anps = append(anps, m[k])
		}
	}
	sort.Slice(anps, func(i, j int) bool { return anps[i].anp.Prio < anps[j].anp.Prio })
	for _, a := range anps {
		if err := pe.InsertObject(a.k8s()); err != nil {
			return nil, err
		}
	}
	for _, k := range keys {
		if m[k].kind == "BANP" {
			if err := pe.InsertObject(m[k].k8s()); err != nil {
				return nil, err
			}
		}
	}
	return pe, nil
}

type result struct {
	pe      *eval.PolicyEngine
	m       model
	ptr     map[string]runtime.Object
	panic   string
	panicAt int
	// refusals of the last operation that a fresh engine holding the same objects does not share
	refusal string
}

func replay(hist []*op, debugCache bool) (r result) {
	r.m = model{}
	r.ptr = map[string]runtime.Object{}
	r.pe = eval.NewPolicyEngine()
	r.pe.VerifCacheDebug(debugCache)
	r.panicAt = -1
	i := 0
	defer func() {
		if x := recover(); x != nil {
			r.panic = fmt.Sprintf("%v\n%s", x, trimStack(string(debug.Stack())))
			r.panicAt = i
		}
	}()
	for i = 0; i < len(hist); i++ {
		o := hist[i]
		switch {
		case o.clear:
			r.pe.ClearResources()
			r.pe.VerifCacheDebug(debugCache)
			r.m = model{}
			r.ptr = map[string]runtime.Object{}
		case o.bulk != nil:
			var nps []*netv1.NetworkPolicy
			var pods []*corev1.Pod
			var nss []*corev1.Namespace
			for _, b := range o.bulk {
				switch k := b.k8s().(type) {
				case *netv1.NetworkPolicy:
					nps = append(nps, k)
				case *corev1.Pod:
					pods = append(pods, k)
				case *corev1.Namespace:
					nss = append(nss, k)
				}
			}
			// SetResources inserts namespaces, then policies, then pods, and stops at the first error
			err := r.pe.SetResources(nps, pods, nss)
			for _, kind := range []string{"Namespace", "NetworkPolicy", "Pod"} {
				for _, b := range o.bulk {
					if b.kind != kind {
						continue
					}
					if kind == "NetworkPolicy" {
						if _, exists := r.m[b.key]; exists {
							goto bulkDone // the duplicate policy is rejected and ends the call
						}
					}
					r.m[b.key] = b
					delete(r.ptr, b.key)
				}
			}
		bulkDone:
			_ = err
		case o.query != nil:
			q := o.query
			r.pe.CheckIfAllowed(q[0], q[1], q[2], q[3])
		case o.insert:
			k := o.o.k8s()
			r.refusal = ""
			if err := r.pe.InsertObject(k); err == nil {
				r.m[o.o.key] = o.o
				r.ptr[o.o.key] = k
			} else if _, present := r.m[o.o.key]; !present && i == len(hist)-1 {
				// an object that is not there now: the engine with a history may refuse it only if a fresh engine holding the
				// same current objects refuses it as well (a refused *update* of a policy is the uniqueness rule of C19)
				m2 := model{}
				for key, v := range r.m {
					m2[key] = v
				}
				m2[o.o.key] = o.o
				if _, ferr := m2.fresh(); ferr == nil {
					r.refusal = fmt.Sprintf("InsertObject(%s) fails with %q although the object is not present and a fresh engine accepts it next to the current objects", o.name, err.Error())
				}
			}
		default:
			k := o.o.k8s()
			if p, ok := r.ptr[o.o.key]; ok && o.byPtr {
				k = p
			}
			r.refusal = ""
			if err := r.pe.DeleteObject(k); err == nil {
				delete(r.m, o.o.key)
				delete(r.ptr, o.o.key)
			} else if i == len(hist)-1 {
				// DeleteObject of a well-formed object has no reason to fail, present or not ("a no-op, not a crash")
				r.refusal = fmt.Sprintf("DeleteObject(%s) fails with %q", o.name, err.Error())
			}
		}
	}
	return r
}

func trimStack(s string) string {
	var keep []string
	for _, l := range strings.Split(s, "\n") {
		if strings.Contains(l, "netpol-analyzer/pkg") {
			keep = append(keep, strings.TrimSpace(l))
		}
		if len(keep) >= 6 {
			break
		}
	}
	return strings.Join(keep, "\n")
}

func podIndex(w *wm.World, name string) int {
	for i, p := range w.WLs {
		if p.Kind == "Pod" && p.NS+"/"+p.Name == name || p.Kind != "Pod" && p.NS+"/"+p.Name+"-1" == name {
			return i
		}
	}
	return -1
}

func names(h []*op) []string {
	var s []string
	for _, o := range h {
		s = append(s, o.name)
	}
	return s
}

func opKind(name string) string {
	if i := strings.Index(name, "#"); i >= 0 {
		name = name[:i]
	}
	p := strings.SplitN(name, "/", 2)
	return p[0] // e.g. "ins:Pod", "del:ANP", "q:a"
}

// invariant checks one state (engine r.pe is disposable) and returns failures.
func invariant(r result, hist []*op, seedLen int) (fails []fw.Failure, outcome string) {
	fr, ferr := r.m.fresh()
	if ferr != nil {
		return []fw.Failure{{Class: "harness: fresh engine rejects the current objects", Detail: ferr.Error()}}, ""
	}
	// informational only (GetPeersList is not part of the statement): does the peer list depend on the history?
	if peerList(r.pe) != peerList(fr) {
		peerListDiffers.Add(1)
	}
	w := r.m.world()
	last := "seed"
	if len(hist) > seedLen {
		last = opKind(hist[len(hist)-1].name)
	}
	var outs []string
	for _, q := range allQueries() {
		var v1, v2 bool
		var e1, e2 error
		func() {
			defer func() {
				if x := recover(); x != nil {
					e1 = fmt.Errorf("PANIC %v", x)
					fails = append(fails, fw.Failure{Class: "panic in CheckIfAllowed", Detail: fmt.Sprintf("history %v query %v: %v\n%s", names(hist), q, x, trimStack(string(debug.Stack())))})
				}
			}()
			v1, e1 = r.pe.CheckIfAllowed(q[0], q[1], q[2], q[3])
		}()
		v2, e2 = fr.CheckIfAllowed(q[0], q[1], q[2], q[3])
		outs = append(outs, fmt.Sprintf("%v/%v", v2, e2 != nil))
		si, di := podIndex(w, q[0]), podIndex(w, q[1])
		refStr := "n/a"
		if si >= 0 && di >= 0 {
			var port int
			if _, err := fmt.Sscan(q[3], &port); err == nil { // a port given by name has no reference verdict here: only history independence is checked
				refStr = fmt.Sprint(w.Allowed(wm.Peer{WL: si}, wm.Peer{WL: di}, strings.ToUpper(q[2]), port))
			}
		}
		if v1 != v2 || (e1 != nil) != (e2 != nil) {
			fails = append(fails, fw.Failure{
				Class: fmt.Sprintf("history-dependent answer (last operation %s): engine=%v/err=%v fresh=%v/err=%v", last, v1, e1 != nil, v2, e2 != nil),
				Detail: fmt.Sprintf("history: %s\nquery %v: explored engine answers %v (err %v); a fresh engine holding the same current objects answers %v (err %v); reference %s\ncurrent objects: %v",
					strings.Join(names(hist), " ; "), q, v1, e1, v2, e2, refStr, r.m.describe())})
		} else if e2 == nil && refStr != "n/a" && refStr != fmt.Sprint(v2) {
			fails = append(fails, fw.Failure{Class: fmt.Sprintf("fresh engine disagrees with the reference semantics: fresh=%v ref=%s", v2, refStr),
				Detail: fmt.Sprintf("history: %s\nquery %v\ncurrent objects: %v", strings.Join(names(hist), " ; "), q, r.m.describe())})
		} else if e2 != nil && refStr != "n/a" && r.m.hasNamespacesOf(q) {
			fails = append(fails, fw.Failure{Class: "engine fails on a query between present pods in present namespaces", Detail: fmt.Sprintf("history: %s\nquery %v: %v", strings.Join(names(hist), " ; "), q, e2)})
		}
	}
	return fails, strings.Join(outs, " ")
}

var peerListDiffers atomic.Int64

func peerList(pe *eval.PolicyEngine) (res string) {
	defer func() {
		if x := recover(); x != nil {
			res = fmt.Sprintf("PANIC %v", x)
		}
	}()
	ps, err := pe.GetPeersList()
	if err != nil {
		return "error"
	}
	var s []string
	for _, p := range ps {
		s = append(s, p.String())
	}
	sort.Strings(s)
	return strings.Join(s, ",")
}

func (m model) describe() []string {
	var s []string
	for _, k := range m.sortedKeys() {
		s = append(s, k+"#"+m[k].variant)
	}
	return s
}

func (m model) hasNamespacesOf(q [4]string) bool {
	for _, p := range q[:2] {
		ns := strings.SplitN(p, "/", 2)[0]
		if _, ok := m["Namespace//"+ns]; !ok {
			return false
		}
	}
	return true
}

type replayData struct {
	Seed int      `json:"seed"`
	Ops  []string `json:"ops"`
}

func seeds(alpha []op) [][]*op {
	by := map[string]*op{}
	for i := range alpha {
		by[alpha[i].name] = &alpha[i]
	}
	pick := func(ns ...string) []*op {
		var r []*op
		for _, n := range ns {
			o, ok := by[n]
			if !ok {
				panic("seed op " + n)
			}
			r = append(r, o)
		}
		return r
	}
	full := []string{"ins:Namespace//a#team=x", "ins:Namespace//default#", "ins:Pod/a/p1#app=a", "ins:Pod/a/p2#app=a", "ins:Pod/default/p3#http80", "ins:NetworkPolicy/default/n1#v1-namespace-omitted"}
	return [][]*op{
		nil,
		pick(full...),
		pick(append(append([]string{}, full...), "ins:ANP//a5#allow80@5", "ins:ANP//a10#deny@10")...),
		pick(append(append([]string{}, full[:5]...), "ins:ANP//a10#deny@10", "ins:ANP//a5#allow80@5", "ins:BANP//default#deny")...),
		pick(append(append([]string{}, full...), "q:a/p1,default/p3,tcp,80", "q:a/p1,default/p3,tcp,8080", "q:default/p3,a/p1,tcp,80")...),
		pick("ins:Pod/a/p1#app=a", "ins:Pod/default/p3#http80", "ins:Pod/default/p4#noowner", "ins:BANP//default#deny"),
		pick("ins:Pod/a/p1#app=a", "ins:Pod/default/p3#http80", "ins:ANP//a20#allowall@20", "ins:ANP//a5#allow80@5", "ins:ANP//a10#deny@10", "q:a/p1,default/p3,tcp,8080"),
		// the seed of the second alphabet (last): both owner-less pods, the policy of the whole namespace, a peer with owner
		pick("ins:Namespace//a#team=x", "ins:Namespace//default#", "ins:Pod/a/p1#app=a", "ins:Pod/default/p3#http80", "ins:Pod/default/p4#noowner", "ins:Pod/default/p6#noowner-app=z", "ins:NetworkPolicy/default/n1#v2"),
	}
}

func Run(r *fw.Run) {
	r.Rule = "states = canonical dumps of every private field of the real PolicyEngine (objects, owner maps, ANP order, BANP, cache keys and values) reached by operation histories; transitions = every operation of the alphabet (inserts/updates, deletes incl. absent objects, equal copies and retained pointers, queries) applied in every distinct state; invariant in every state: every query equals a fresh engine on the current objects and the reference semantics, and no operation panics"
	r.Assume = []string{
		"merging histories with equal dumps is sound because the dump is the whole state the methods read; LRU recency is excluded (the default capacity 500 is never reached by the <=40 keys a scope can create)",
		"operation alphabet of DESIGN §3 C15 extended (2 namespaces, 4 pods and a Deployment incl. variants, 2 NetworkPolicies incl. one without namespace and one without policyTypes, 3 ANPs, BANP, 7 queries, SetResources / ClearResources)",
		"cache debug mode (hit log file) is switched off by the overlay hook except in the designated scope",
	}
	allOps := ops()
	mainAlpha, secondAlpha := mainAlphabet(allOps), secondAlphabet(allOps)
	r.Bounds["operation_alphabet"] = len(mainAlpha)
	r.Bounds["operation_alphabet_of_the_last_seed"] = len(secondAlpha)
	sd := seeds(allOps)
	alpha := allOps // name lookup (replay); the search takes the alphabet of its seed
	if r.Replaying() {
		var rd replayData
		if err := json.Unmarshal(r.ReplayData, &rd); err != nil {
			r.HarnessError("replay: %v", err)
			return
		}
		by := map[string]*op{}
		for i := range alpha {
			by[alpha[i].name] = &alpha[i]
		}
		hist := append([]*op{}, sd[rd.Seed]...)
		for _, n := range rd.Ops {
			o, ok := by[n]
			if !ok {
				r.HarnessError("replay: unknown operation %q", n)
				return
			}
			hist = append(hist, o)
		}
		res := replay(hist, false)
		if res.panic != "" {
			r.ReplayReport([]fw.Failure{{Class: "panic in " + opKind(hist[res.panicAt].name), Detail: res.panic}})
			return
		}
		if res.refusal != "" {
			r.ReplayReport([]fw.Failure{{Class: "the engine refuses an operation because of its history: " + opKind(hist[len(hist)-1].name), Detail: "history: " + strings.Join(names(hist), " ; ") + "\n" + res.refusal}})
			return
		}
		fails, _ := invariant(res, hist, len(sd[rd.Seed]))
		r.ReplayReport(fails)
		return
	}
	depth := 5
	budget := 300 * time.Second
	if !r.Quick() {
		// thorough: one level deeper from every pre-populated seed, two levels deeper from the empty engine (searched last: a
		// background run showed that depth 8 from the empty engine alone uses up any budget and starves the other seeds)
		depth = 6
		budget = 60 * time.Minute
	}
	r.SetBudget(budget)
	r.Bounds["max_depth"] = depth
	type seedStat struct {
		Seed        int   `json:"seed"`
		States      int   `json:"states"`
		Transitions int64 `json:"transitions"`
		Depth       int   `json:"depth_completed"`
		Fixpoint    bool  `json:"fixpoint_reached"`
		LevelSizes  []int `json:"new_states_per_level"`
	}
	var stats []seedStat
	var sampleHist []string
	// the seed of the second alphabet is searched first (it is the cheapest: should the machine be so loaded that the budget
	// ends the run, the cut falls on the deeper levels of the big alphabet); seed numbers stay those of the list
	order := []int{len(sd) - 1}
	for i := 0; i < len(sd)-1; i++ {
		order = append(order, i)
	}
	if !r.Quick() {
		order = append(append([]int{len(sd) - 1}, order[2:]...), 0)
	}
	for _, si := range order {
		seed := sd[si]
		t0 := time.Now()
		st := seedStat{Seed: si}
		seen := map[[20]byte]bool{}
		outcomes := map[string]bool{}
		alpha := mainAlpha
		if si == len(sd)-1 {
			alpha = secondAlpha
		}
		complete := true
		var seq int64
		seedDepth := depth
		if r.Quick() && si >= 2 {
			seedDepth = depth - 1 // quick tier: the pre-populated seeds beyond the first are searched one level less deep
		}
		if si == len(sd)-1 {
			seedDepth = depth + 3 // the second alphabet is small: its seed is searched deeper
		}
		if !r.Quick() && si == 0 {
			seedDepth = depth + 1
		}
		// level d holds the candidate histories parents x alphabet (level 0: the seed itself). They are never materialised
		// as one slice (level 8 of the thorough tier has some 3e8 of them): a level is evaluated chunk by chunk, in
		// enumeration order, so the search stays deterministic and its memory is bounded by the states kept.
		parents := [][]*op{nil}
		const chunkSize = 1 << 21
		frontierLeft := 1
		for d := 0; d <= seedDepth && len(parents) > 0; d++ {
			if r.Expired() {
				complete = false
				break
			}
			nCand := len(parents) * len(alpha)
			if d == 0 {
				nCand = 1
			}
			candidate := func(i int) []*op {
				if d == 0 {
					return seed
				}
				ph := parents[i/len(alpha)]
				h := make([]*op, len(ph)+1)
				copy(h, ph)
				h[len(h)-1] = &alpha[i%len(alpha)]
				return h
			}
			type out struct {
				hist  []*op
				key   [20]byte
				fails []fw.Failure
				oc    string
				isNew bool
			}
			var nextParents [][]*op
			levelFresh := 0
			var midFresh []*op
			for lo := 0; lo < nCand; lo += chunkSize {
				if lo > 0 && r.Expired() {
					complete = false
					break
				}
				hi := lo + chunkSize
				if hi > nCand {
					hi = nCand
				}
				outs := make([]out, hi-lo)
				var wg sync.WaitGroup
				idx := make(chan int, 1024)
				for g := 0; g < r.Workers; g++ {
					wg.Add(1)
					go func() {
						defer wg.Done()
						for i := range idx {
							hist := candidate(lo + i)
							res := replay(hist, si == 4)
							o := out{hist: hist}
							if res.panic != "" {
								o.fails = []fw.Failure{{Class: "panic in " + opKind(hist[res.panicAt].name), Detail: fmt.Sprintf("history: %s\n%s", strings.Join(names(hist), " ; "), res.panic)}}
								outs[i] = o
								continue
							}
							if res.refusal != "" { // reported for the transition itself: the state it leads to is the one before
								o.fails = []fw.Failure{{Class: "the engine refuses an operation because of its history: " + opKind(hist[len(hist)-1].name), Detail: "history: " + strings.Join(names(hist), " ; ") + "\n" + res.refusal}}
								outs[i] = o
								continue
							}
							// a state is the pair (engine state, current objects of the model): an operation that silently fails to
							// change the engine leaves the dump unchanged but not the model, and must not be merged with the state before
							o.key = sha1.Sum([]byte(res.pe.VerifDump() + "\x00MODEL" + strings.Join(res.m.describe(), ";")))
							outs[i] = o
						}
					}()
				}
				for i := range outs {
					idx <- i
				}
				close(idx)
				wg.Wait()
				st.Transitions += int64(len(outs))
				// de-duplicate sequentially (deterministic: first history in enumeration order wins)
				var fresh []int
				for i := range outs {
					if len(outs[i].fails) > 0 {
						continue
					}
					if !seen[outs[i].key] {
						seen[outs[i].key] = true
						outs[i].isNew = true
						fresh = append(fresh, i)
					}
				}
				// invariant on every new state, in parallel (the replayed engine is disposable)
				idx = make(chan int, 1024)
				for g := 0; g < r.Workers; g++ {
					wg.Add(1)
					go func() {
						defer wg.Done()
						for i := range idx {
							res := replay(outs[i].hist, si == 4)
							outs[i].fails, outs[i].oc = invariant(res, outs[i].hist, len(seed))
						}
					}()
				}
				for _, i := range fresh {
					idx <- i
				}
				close(idx)
				wg.Wait()
				for i := range outs {
					if len(outs[i].fails) > 0 {
						x := r.NewRec()
						for _, f := range outs[i].fails {
							x.Fail(f.Class, f.Known, f.Detail)
						}
						rd, _ := json.Marshal(replayData{Seed: si, Ops: names(outs[i].hist[len(seed):])})
						x.Describe(func() any { return json.RawMessage(rd) })
						r.Direct(fmt.Sprintf("bfs-seed%d", si), seq, x)
					}
					seq++
					if outs[i].isNew {
						outcomes[outs[i].oc] = true
					}
				}
				levelFresh += len(fresh)
				if len(fresh) > 0 && midFresh == nil {
					midFresh = outs[fresh[len(fresh)/2]].hist
				}
				if d < seedDepth {
					for _, i := range fresh {
						nextParents = append(nextParents, outs[i].hist)
					}
				}
			}
			st.States += levelFresh
			if !complete {
				// the level was cut by the deadline: its states count, the depth completed stays the previous one
				st.LevelSizes = append(st.LevelSizes, -levelFresh)
				break
			}
			st.LevelSizes = append(st.LevelSizes, levelFresh)
			st.Depth = d
			if midFresh != nil && len(sampleHist) < 3 && d >= 3 {
				sampleHist = append(sampleHist, strings.Join(names(midFresh), " ; "))
			}
			if levelFresh == 0 {
				st.Fixpoint = true
			}
			parents = nextParents
			frontierLeft = len(parents)
		}
		if frontierLeft == 0 && complete && st.Depth < seedDepth {
			st.Fixpoint = true
		}
		x := r.NewRec()
		x.AddStates(int64(st.States))
		x.AddTransitions(st.Transitions)
		r.Direct(fmt.Sprintf("bfs-seed%d", si), -1, x)
		// the distinct answer vectors (all queries, verdict and error-ness) seen in the states of this seed
		for oc := range outcomes {
			y := r.NewRec()
			y.Outcome(oc)
			y.Nontrivial(oc)
			r.Direct(fmt.Sprintf("bfs-seed%d", si), -2, y)
		}
		stats = append(stats, st)
		r.AddScope(&fw.ScopeStat{Name: fmt.Sprintf("bfs-seed%d", si), Mode: "explicit-state BFS", Leaves: st.Transitions, Complete: complete, Outcomes: len(outcomes), Nontrivial: st.States,
			WallS: time.Since(t0).Seconds(), Note: fmt.Sprintf("states=%d depth=%d fixpoint=%v levels=%v", st.States, st.Depth, st.Fixpoint, st.LevelSizes)})
	}
	r.Extra["per_seed"] = stats
	r.Extra["informational_states_where_GetPeersList_differs_from_a_fresh_engine"] = peerListDiffers.Load()
	var smp []any
	for _, s := range sampleHist {
		smp = append(smp, s)
	}
	if len(smp) > 0 {
		r.Extra["samples"] = smp
	}
}
