// Package c18: CLI, directory API and resource-info API give the same answer.
package c18

import (
	"bytes"
	"fmt"
	"os"
	"os/exec"
	"path/filepath"
	"sort"
	"strings"
	"sync/atomic"
	"time"

	"github.com/np-guard/netpol-analyzer/pkg/manifests/fsscanner"
	"github.com/np-guard/netpol-analyzer/pkg/netpol/connlist"
	"github.com/np-guard/netpol-analyzer/pkg/netpol/diff"

	"verif/checks/c10"
	"verif/checks/expo"
	"verif/fw"
	"verif/wm"
)

func init() { fw.Register("C18", "exploration", Run) }

type dirSpec struct {
	extra bool // thorough tier only: a directory of /repo/tests taken as it is (reduced flag product)
	name  string
	path  string
	focus string // a workload present in the directory ("" = none known)
	admin bool   // contains admin policies (exposure is refused)
}

var all = &wm.Sel{}

func writeWorld(dir string, w *wm.World, files int) {
	os.MkdirAll(dir, 0o755)
	docs := w.YAMLDocs()
	if files < 1 {
		files = 1
	}
	for f := 0; f < files; f++ {
		var part []string
		for i, d := range docs {
			if i%files == f {
				part = append(part, d)
			}
		}
		os.WriteFile(filepath.Join(dir, fmt.Sprintf("f%d.yaml", f)), []byte(strings.Join(part, "---\n")), 0o644)
	}
}

func buildDirs(root, repo string) []dirSpec {
	var dirs []dirSpec
	add := func(name string, w *wm.World, files int, focus string) string {
		p := filepath.Join(root, name)
		writeWorld(p, w, files)
		dirs = append(dirs, dirSpec{name: name, path: p, focus: focus, admin: len(w.ANPs) > 0 || w.BANP != nil})
		return p
	}
	nss := []wm.NS{{Name: "ns1", Labels: map[string]string{"team": "a"}, HasObj: true}}
	wls := []wm.Workload{
		{Kind: "Deployment", NS: "ns1", Name: "w1", Labels: map[string]string{"app": "a"}, Ports: []wm.CPort{{Name: "http", Num: 80}}, Replicas: 1},
		{Kind: "Deployment", NS: "ns1", Name: "w2", Labels: map[string]string{"app": "b"}, Ports: []wm.CPort{{Name: "http", Num: 8080}}, Replicas: 2},
		{Kind: "StatefulSet", NS: "ns2", Name: "w1", Labels: map[string]string{"app": "a"}, Replicas: 1},
	}
	np := wm.NP{NS: "ns1", Name: "p", PodSel: *wm.ML("app", "a"), Types: []string{"Ingress", "Egress"},
		Ingress: []wm.NPRule{{Peers: []wm.NPPeer{{Pod: wm.ML("app", "b")}, {CIDR: "10.0.0.0/8", Except: []string{"10.1.0.0/16"}}}, Ports: []wm.NPPort{{HasPort: true, Name: "http"}}}},
		Egress:  []wm.NPRule{{Peers: []wm.NPPeer{{NSSel: all}}, Ports: []wm.NPPort{{HasPort: true, Num: 53, Proto: "UDP"}, {HasPort: true, Num: 8080}}}}}
	p80 := []wm.APort{{Kind: "num", Proto: "TCP", Num: 80}}
	add("plain", &wm.World{NSs: nss, WLs: wls}, 1, "w1")
	add("netpol", &wm.World{NSs: nss, WLs: wls, NPs: []wm.NP{np}}, 2, "ns1/w1")
	add("anp", &wm.World{NSs: nss, WLs: wls, NPs: []wm.NP{np}, ANPs: []wm.ANP{{Name: "a", Prio: 5, Subject: wm.APeer{Namespaces: all}, Ingress: []wm.ARule{{Action: "Deny", Peers: []wm.APeer{{Namespaces: wm.ML("team", "a")}}, Ports: &p80}}}},
		BANP: &wm.ANP{Name: "default", Subject: wm.APeer{Namespaces: all}, Egress: []wm.ARule{{Action: "Deny", Peers: []wm.APeer{{Namespaces: all}}, Ports: &p80}}}}, 3, "ns2/w1")
	add("ingress", &wm.World{NSs: nss, WLs: wls, NPs: []wm.NP{np}, Svcs: []wm.Svc{{NS: "ns1", Name: "s", Sel: map[string]string{"app": "b"}, Ports: []wm.SvcPort{{Name: "p1", Port: 80, Target: wm.TName("http")}}}},
		Ings: []wm.Ing{{NS: "ns1", Name: "i", Default: &wm.Backend{Svc: "s", PortNum: 80}}}}, 1, "ingress-controller")
	// exposure-rich worlds from the exposure scopes (fixed vectors)
	rules := expo.Rules()
	for i, rs := range [][2]int{{3, 40}, {25, 61}, {90, 7}, {12, 100}} {
		w := &wm.World{NSs: nss, WLs: wls[:2]}
		w.NPs = []wm.NP{{NS: "ns1", Name: "e", PodSel: *wm.ML("app", "a"), Types: []string{"Ingress", "Egress"}, Ingress: []wm.NPRule{rules[rs[0]%len(rules)]}, Egress: []wm.NPRule{rules[rs[1]%len(rules)]}}}
		if w.NormalizeNS().NamedPortOnIPPossible() {
			w.NPs[0].Egress = nil
		}
		add(fmt.Sprintf("exposure%d", i), w, 1+i%2, "w1")
	}
	// ingress / route worlds (fixed vectors of the C10 generators)
	for i, vec := range [][]int{{0, 0, 1, 0, 0, 0}, {1, 0, 6, 2, 1, 1}, {0, 2, 3, 4, 3, 2}} {
		if w, ok := fw.Replay(c10.GenIngress, vec); ok {
			add(fmt.Sprintf("c10-ingress%d", i), w, 2, "w1")
		}
	}
	for i, vec := range [][]int{{0, 0, 1, 0, 0, 0, 0}, {1, 0, 5, 3, 1, 2, 0}} {
		if w, ok := fw.Replay(c10.GenRoute, vec); ok {
			add(fmt.Sprintf("c10-route%d", i), w, 1, "ns1/w2")
		}
	}
	// a directory with a severe (non-fatal) error, one with a fatal error, an empty one, one without workloads
	sev := add("severe", &wm.World{NSs: nss, WLs: wls, NPs: []wm.NP{np}}, 1, "w1")
	os.WriteFile(filepath.Join(sev, "zz-bad.yaml"), []byte("apiVersion: networking.k8s.io/v1\nkind: NetworkPolicy\nmetadata: {name: zzbad, namespace: ns1}\nspec:\n  podSelector: {}\n  ingress: not-a-list\n"), 0o644)
	syn := add("syntax-error", &wm.World{NSs: nss, WLs: wls}, 1, "w1")
	os.WriteFile(filepath.Join(syn, "zz-broken.yaml"), []byte("apiVersion: v1\nkind: Pod\nmetadata:\n  name: zzbroken\n   labels: [unclosed\n"), 0o644)
	add("fatal-same-priority", &wm.World{NSs: nss, WLs: wls, ANPs: []wm.ANP{{Name: "a", Prio: 5, Subject: wm.APeer{Namespaces: all}, Ingress: []wm.ARule{{Action: "Deny", Peers: []wm.APeer{{Namespaces: all}}}}},
		{Name: "b", Prio: 5, Subject: wm.APeer{Namespaces: all}, Ingress: []wm.ARule{{Action: "Allow", Peers: []wm.APeer{{Namespaces: all}}}}}}}, 1, "w1")
	// a rule's named port that the selected pod declares under another protocol (and one it declares under the same one)
	add("named-port-protocol-mismatch", &wm.World{NSs: nss, WLs: []wm.Workload{
		{Kind: "Deployment", NS: "ns1", Name: "w1", Labels: map[string]string{"app": "a"}, Ports: []wm.CPort{{Name: "dns", Num: 53, Proto: "UDP"}, {Name: "http", Num: 80}}, Replicas: 1},
		{Kind: "Deployment", NS: "ns1", Name: "w2", Labels: map[string]string{"app": "b"}, Ports: []wm.CPort{{Name: "dns", Num: 53}}, Replicas: 1}},
		NPs: []wm.NP{{NS: "ns1", Name: "named", PodSel: wm.Sel{}, Types: []string{"Ingress"},
			Ingress: []wm.NPRule{{Peers: []wm.NPPeer{{Pod: all}}, Ports: []wm.NPPort{{HasPort: true, Name: "dns"}, {HasPort: true, Name: "http", Proto: "UDP"}, {HasPort: true, Name: "nosuch", Proto: "SCTP"}}}}}}}, 1, "w1")
	// workloads scaled to zero (replicas: 0, parallelism: 0)
	{
		p := filepath.Join(root, "zero-replicas")
		os.MkdirAll(p, 0o755)
		var docs []string
		docs = append(docs, wm.InfoYAML((&wm.World{NSs: nss, NPs: []wm.NP{np}}).Infos())...)
		docs = append(docs, wm.InfoYAML(wm.Express(wls[0], "Deployment", 0))...)
		docs = append(docs, wm.InfoYAML(wm.Express(wls[1], "Job", 0))...)
		docs = append(docs, wm.InfoYAML(wm.Express(wls[2], "StatefulSet", 1))...)
		os.WriteFile(filepath.Join(p, "all.yaml"), []byte(strings.Join(docs, "---\n")), 0o644)
		dirs = append(dirs, dirSpec{name: "zero-replicas", path: p, focus: "w1"})
	}
	// many resources (more than any size-derived default in the code base: 120 objects, 40 workloads)
	big := &wm.World{NSs: nss}
	for i := 0; i < 40; i++ {
		ns := []string{"ns1", "ns2", "ns3"}[i%3]
		app := fmt.Sprintf("app%d", i)
		big.WLs = append(big.WLs, wm.Workload{Kind: "Deployment", NS: ns, Name: fmt.Sprintf("d%02d", i), Labels: map[string]string{"app": app}, Ports: []wm.CPort{{Name: "http", Num: 8000 + i}}, Replicas: 1})
		big.Svcs = append(big.Svcs, wm.Svc{NS: ns, Name: fmt.Sprintf("s%02d", i), Sel: map[string]string{"app": app}, Ports: []wm.SvcPort{{Port: 80, Target: wm.TName("http")}}})
		big.NPs = append(big.NPs, wm.NP{NS: ns, Name: fmt.Sprintf("p%02d", i), PodSel: *wm.ML("app", app), Types: []string{"Ingress"},
			Ingress: []wm.NPRule{{Peers: []wm.NPPeer{{Pod: wm.ML("app", fmt.Sprintf("app%d", (i+3)%40))}}, Ports: []wm.NPPort{{HasPort: true, Name: "http"}}}}})
	}
	add("many-resources", big, 4, "ns2/d01")
	empty := filepath.Join(root, "empty")
	os.MkdirAll(empty, 0o755)
	dirs = append(dirs, dirSpec{name: "empty", path: empty})
	add("no-workloads", &wm.World{NSs: nss, NPs: []wm.NP{np}}, 1, "")
	dirs = append(dirs, dirSpec{name: "missing-directory", path: filepath.Join(root, "does-not-exist")})
	for _, t := range []struct {
		n, focus string
		admin    bool
	}{{"netpol-analysis-example-minimal", "frontend", false}, {"onlineboutique_workloads", "default/emailservice", false}, {"acs-security-demos", "payments/gateway", false},
		{"anp_demo", "", true}, {"ipblockstest", "", false}, {"malformed_pod_example", "", false}, {"bad_yamls", "", false}} {
		p := filepath.Join(repo, "tests", t.n)
		if _, err := os.Stat(p); err == nil {
			dirs = append(dirs, dirSpec{name: "tests/" + t.n, path: p, focus: t.focus, admin: t.admin})
		}
	}
	return dirs
}

type Case struct {
	Cmd      string // list | diff
	D1, D2   int
	Format   string
	Exposure bool
	Focus    string // "" | "present" | "absent"
	Fail     bool
	Verb     string // "" | "-q" | "-v"
	ToFile   bool
	Desc     string
}

var dirs []dirSpec
var bin string
var seq atomic.Int64

func relOf(conns []connlist.Peer2PeerConnection) string {
	var ks []string
	for _, c := range conns {
		k := c.Src().String() + " => " + c.Dst().String() + " : "
		if c.AllProtocolsAndPorts() {
			k += "All"
		} else {
			m := map[string][]wm.Interval{}
			for p, rs := range c.ProtocolsAndPorts() {
				for _, r := range rs {
					m[string(p)] = append(m[string(p)], wm.Interval{Lo: int(r.Start()), Hi: int(r.End())})
				}
			}
			k += wm.ConnString(m)
		}
		ks = append(ks, k)
	}
	sort.Strings(ks)
	return strings.Join(ks, "\n")
}

func eval(cs Case, x *fw.Rec) {
	x.Describe(func() any { return map[string]any{"case": cs.Desc} })
	var args []string
	var libOut string
	var libErr error
	d1 := dirs[cs.D1]
	focus := ""
	switch cs.Focus {
	case "present":
		focus = d1.focus
	case "absent":
		focus = "no-such-workload"
	case "near-miss-suffix": // absent, but one edit away from a present name
		focus = d1.focus + "-x"
	case "near-miss-prefix":
		focus = d1.focus[:len(d1.focus)-1]
	}
	if cs.Cmd == "list" {
		args = []string{"list", "--dirpath", d1.path, "-o", cs.Format}
		opts := []connlist.ConnlistAnalyzerOption{connlist.WithLogger(wm.Quiet()), connlist.WithOutputFormat(cs.Format), connlist.WithFocusWorkload(focus)}
		if cs.Exposure {
			args = append(args, "--exposure")
			opts = append(opts, connlist.WithExposureAnalysis())
		}
		if focus != "" {
			args = append(args, "--focusworkload", focus)
		}
		if cs.Fail {
			args = append(args, "--fail")
			opts = append(opts, connlist.WithStopOnError())
		}
		ca := connlist.NewConnlistAnalyzer(opts...)
		conns, _, err := ca.ConnlistFromDirPath(d1.path)
		libErr = err
		if err == nil {
			libOut, libErr = ca.ConnectionsListToString(conns)
		}
		// resource-info API vs directory API (same options)
		if !cs.ToFile && cs.Verb == "" && cs.Format == "txt" {
			infos, _ := fsscanner.GetResourceInfosFromDirPath([]string{d1.path}, true, cs.Fail)
			ca2 := connlist.NewConnlistAnalyzer(opts...)
			c2, _, err2 := ca2.ConnlistFromResourceInfos(infos)
			ca3 := connlist.NewConnlistAnalyzer(opts...)
			c3, _, err3 := ca3.ConnlistFromDirPath(d1.path)
			if err2 == nil && err3 == nil && relOf(c2) != relOf(c3) {
				x.Fail("ConnlistFromResourceInfos(scan(dir)) differs from ConnlistFromDirPath(dir)", "", fmt.Sprintf("%s\n--- resource infos\n%s\n--- dir path\n%s", cs.Desc, relOf(c2), relOf(c3)))
			}
			if (err2 == nil) != (err3 == nil) && !cs.Fail {
				// the directory API additionally fails when the scan itself reports errors for an otherwise empty input; only flag a success/failure swap on analysable inputs
				if len(infos) > 0 && err3 == nil {
					x.Fail("resource-info API fails where the directory API succeeds", "", fmt.Sprintf("%s: %v", cs.Desc, err2))
				}
			}
		}
	} else {
		d2 := dirs[cs.D2]
		args = []string{"diff", "--dir1", d1.path, "--dir2", d2.path, "-o", cs.Format}
		opts := []diff.DiffAnalyzerOption{diff.WithLogger(wm.Quiet()), diff.WithOutputFormat(cs.Format), diff.WithArgNames("dir1", "dir2")}
		if cs.Fail {
			args = append(args, "--fail")
			opts = append(opts, diff.WithStopOnError())
		}
		da := diff.NewDiffAnalyzer(opts...)
		d, err := da.ConnDiffFromDirPaths(d1.path, d2.path)
		libErr = err
		if err == nil {
			libOut, libErr = da.ConnectivityDiffToString(d)
		}
	}
	if cs.Verb != "" {
		args = append(args, cs.Verb)
	}
	outFile := ""
	if cs.ToFile {
		outFile = filepath.Join(fw.Scratch, fmt.Sprintf("c18-out-%d", seq.Add(1)))
		// the file exists already and is longer than any report: -f must leave exactly the report in it
		os.WriteFile(outFile, bytes.Repeat([]byte("stale content of an earlier run\n"), 4000), 0o644)
		defer os.Remove(outFile)
		args = append(args, "-f", outFile)
	}
	cmd := exec.Command(bin, args...)
	var stdout, stderr bytes.Buffer
	cmd.Stdout, cmd.Stderr = &stdout, &stderr
	cmd.Dir = fw.Scratch
	err := cmd.Run()
	exit := 0
	if err != nil {
		if ee, ok := err.(*exec.ExitError); ok {
			exit = ee.ExitCode()
		} else {
			x.Fail("harness: cannot run the CLI", "", err.Error())
			return
		}
	}
	x.Count("cli_spawns", 1)
	cl := cs.Cmd + ": "
	if (exit != 0) != (libErr != nil) {
		x.Fail(cl+"exit status disagrees with the library call", "", fmt.Sprintf("%s\nargs: %v\nexit status %d, library error: %v\nstderr: %s", cs.Desc, args, exit, libErr, tail(stderr.String(), 600)))
	}
	if libErr == nil && exit == 0 {
		if stdout.String() != libOut {
			x.Fail(cl+"stdout differs from the library string", "", fmt.Sprintf("%s\nargs: %v\n--- stdout\n%s\n--- library\n%s", cs.Desc, args, tail(stdout.String(), 1500), tail(libOut, 1500)))
		}
		if cs.ToFile {
			b, rerr := os.ReadFile(outFile)
			if rerr != nil || string(b) != stdout.String() {
				x.Fail(cl+"-f FILE content differs from stdout", "", fmt.Sprintf("%s\nargs: %v\nfile has %d bytes, stdout %d bytes (read error: %v)", cs.Desc, args, len(b), stdout.Len(), rerr))
			}
		}
	}
	x.Outcome(fmt.Sprintf("%s|%s|%d|%d", cs.Cmd, cs.Format, exit, stdout.Len()))
	if exit == 0 && stdout.Len() > 0 {
		x.Nontrivial(cs.Desc)
		x.Sample(map[string]any{"args": strings.Join(args, " "), "stdout_bytes": stdout.Len(), "exit": exit})
	}
}

func tail(s string, n int) string {
	if len(s) > n {
		return "…" + s[len(s)-n:]
	}
	return s
}

func Run(r *fw.Run) {
	r.Rule = "directories (generated worlds written to disk: plain, NetworkPolicy, ANP+BANP, Ingress, exposure-rich, ingress/route worlds, one with 120 resources; a severe-error, a syntax-error, a fatal-error, an empty, a workload-less and a missing directory; 7 of /repo/tests) x the full product of valid flag combinations: list -o(5) x --exposure(2) x --focusworkload(none, present, absent) x --fail(2) x {-q,-v,neither} x -f(2, onto an existing longer file); diff over ordered directory pairs -o(4) x --fail(2) x {-q,-v,neither} x -f(2); every combination spawns the freshly built k8snetpolicy binary and is compared with the library call for the same options; non-trivial = exit 0 with non-empty stdout; distinct = each combination"
	r.Assume = []string{"stdout only is compared (logs go to stderr)", "when the library call fails only the exit status is compared"}
	if r.Quick() {
		r.SetBudget(300 * time.Second)
	} else {
		r.SetBudget(30 * time.Minute)
	}
	bin = os.Getenv("VERIF_CLI_BIN")
	if bin == "" {
		r.HarnessError("VERIF_CLI_BIN is not set (run through run.sh)")
		return
	}
	repo := os.Getenv("VERIF_REPO")
	if repo == "" {
		repo = "/repo"
	}
	dirs = buildDirs(filepath.Join(fw.Scratch, "c18-dirs"), repo)
	if !r.Quick() {
		// every directory of the repository's own test inputs, as it is
		have := map[string]bool{}
		for _, d := range dirs {
			have[d.path] = true
		}
		if ents, err := os.ReadDir(filepath.Join(repo, "tests")); err == nil {
			for _, e := range ents {
				p := filepath.Join(repo, "tests", e.Name())
				if e.IsDir() && !have[p] {
					dirs = append(dirs, dirSpec{extra: true, name: "tests/" + e.Name(), path: p, admin: strings.Contains(e.Name(), "anp") || strings.Contains(e.Name(), "admin")})
				}
			}
		}
	}
	r.Bounds["directories"] = len(dirs)
	q := r.Quick()
	fw.Explore(r, "list-flags", fw.Full, func(c *fw.Ctx) Case {
		d := c.Choose(len(dirs), "directory")
		f := fw.Pick(c, []string{"txt", "json", "csv", "md", "dot", "yaml"}, "-o") // the last one is not supported
		exp := c.Choose(2, "--exposure") == 1
		focus := fw.Pick(c, []string{"", "present", "absent", "near-miss-suffix", "near-miss-prefix"}, "--focusworkload")
		fail := c.Choose(2, "--fail") == 1
		verb := fw.Pick(c, []string{"", "-q", "-v"}, "verbosity")
		toFile := c.Choose(2, "-f") == 1
		if (focus == "present" || strings.HasPrefix(focus, "near-miss")) && dirs[d].focus == "" {
			c.Skip()
		}
		if dirs[d].extra && (focus != "" || verb != "" || fail) {
			c.Skip()
		}
		return Case{Cmd: "list", D1: d, Format: f, Exposure: exp, Focus: focus, Fail: fail, Verb: verb, ToFile: toFile,
			Desc: fmt.Sprintf("list dir=%s -o %s exposure=%v focus=%s fail=%v %s file=%v", dirs[d].name, f, exp, focus, fail, verb, toFile)}
	}, eval)
	fw.Explore(r, "diff-flags", fw.Full, func(c *fw.Ctx) Case {
		d1 := c.Choose(len(dirs), "dir1")
		d2 := c.Choose(len(dirs), "dir2")
		f := fw.Pick(c, []string{"txt", "csv", "md", "dot", "json"}, "-o") // the last one is not supported by diff
		fail := c.Choose(2, "--fail") == 1
		verb := fw.Pick(c, []string{"", "-q", "-v"}, "verbosity")
		toFile := c.Choose(2, "-f") == 1
		if dirs[d1].extra || dirs[d2].extra {
			if d1 != d2 || verb != "" || fail {
				c.Skip() // the extra directories are diffed with themselves only
			}
		}
		large := func(n string) bool {
			return strings.HasPrefix(n, "tests/onlineboutique") || strings.HasPrefix(n, "tests/acs") || n == "many-resources"
		}
		if large(dirs[d1].name) || large(dirs[d2].name) {
			if d1 != d2 && !(large(dirs[d1].name) && large(dirs[d2].name)) && dirs[d1].name != "plain" && dirs[d2].name != "plain" {
				c.Skip() // the large directories are diffed with themselves, with each other and with the smallest one only
			}
		}
		c.Stride(map[bool]int{true: 8, false: 1}[q])
		return Case{Cmd: "diff", D1: d1, D2: d2, Format: f, Fail: fail, Verb: verb, ToFile: toFile,
			Desc: fmt.Sprintf("diff dir1=%s dir2=%s -o %s fail=%v %s file=%v", dirs[d1].name, dirs[d2].name, f, fail, verb, toFile)}
	}, eval)
}
