// Package c06: exposure analysis is sound and leaves the base connectivity untouched.
package c06

import (
	"strings"
	"time"

	"verif/checks/c01"
	"verif/checks/c10"
	"verif/checks/expo"
	"verif/fw"
	"verif/wm"
)

func init() { fw.Register("C06", "exploration", Run) }

func Run(r *fw.Run) {
	r.Rule = "NetworkPolicy worlds from the exposure selector alphabet (entire-cluster spellings, nil / explicit namespace selectors, all four expression operators, equivalent and collision-forcing spellings, ipBlock, named ports); for each world list runs with and without --exposure; (a) relations equal, (b) protected flags = reference, (c) every entry x every class of hypothetical pods satisfying its selectors x every port cell: the reference must allow what the entry claims; non-trivial = at least one exposure entry reported; distinct = distinct exposure reports; clause (a) is additionally evaluated on (strided) worlds of the C01 NetworkPolicy scopes and the C10 Service / Ingress / Route scopes"
	r.Assume = []string{"hypothetical pods are enumerated as the finite quotient over the label/namespace/named-port vocabulary of the world's policies plus one fresh value per key and a fresh namespace: every pod of a class gets the same verdict from every selector over that vocabulary",
		"a named port in an entry means the port the hypothetical pod declares under that name with that protocol (nothing if it declares none)"}
	if r.Quick() {
		r.SetBudget(300 * time.Second)
	} else {
		r.SetBudget(30 * time.Minute)
	}
	for _, sc := range append(expo.Scopes(r.Quick()), expo.DigitNamespaceScope(r.Quick())) {
		fw.Explore(r, sc.Name, fw.Full, sc.Gen, func(w *wm.World, x *fw.Rec) {
			res := expo.Check(w)
			x.Describe(expo.Describe(w))
			x.Outcome(res.Outcome)
			x.Count("hypothetical_pod_classes", int64(res.Hyps))
			x.Count("points_judged", res.PointsJudged)
			for _, b := range res.WF {
				x.Fail("result not well-formed (C05 invariant) with exposure: "+b, "", strings.Join(res.WF, "\n"))
			}
			for _, b := range res.BaseDiffers {
				x.Fail("base connectivity differs with --exposure", "", b)
			}
			for _, b := range res.Protected {
				x.Fail("protected flag wrong: "+protClass(b), "", b)
			}
			if len(res.Unsound) > 0 {
				x.Fail("entry not realizable: "+expo.ClassOf(res.Unsound[0]), "", expo.DetailOf(expo.First(res.Unsound, 4)))
			}
			if res.Entries > 0 && res.Skipped == "" {
				x.Nontrivial(res.Outcome)
				x.Sample(map[string]any{"world": w.Brief(), "exposure": expo.First(strings.Split(res.Outcome, ";"), 6), "hypothetical_pod_classes": res.Hyps})
			}
		})
	}
	// clause (a) alone on the worlds of other alphabets (NetworkPolicy shapes of C01, Service / Ingress / Route worlds of C10):
	// the flag must not change the reported connectivity, {ingress-controller} lines included
	type src struct {
		name   string
		gen    func(*fw.Ctx) *wm.World
		stride int
	}
	var srcs []src
	for _, sc := range c01.Scopes(true) {
		srcs = append(srcs, src{"base-untouched/c01-" + sc.Name, sc.Gen, map[string]int{"S-ports": 3, "S-sel-ip": 3, "S-multi": 4}[sc.Name]})
	}
	srcs = append(srcs, src{"base-untouched/c10-ingress", c10.GenIngress, 40}, src{"base-untouched/c10-route", c10.GenRoute, 80}, src{"base-untouched/c10-ingress+route", c10.GenBoth, 4})
	for _, sc := range srcs {
		sc := sc
		st := sc.stride
		if !r.Quick() {
			st = (st + 3) / 4
		}
		fw.Explore(r, sc.name, fw.Full, func(c *fw.Ctx) *wm.World {
			w := sc.gen(c)
			if len(w.ANPs) > 0 || w.BANP != nil {
				c.Skip() // exposure analysis refuses admin policies up front
			}
			c.Stride(st)
			return w
		}, func(w *wm.World, x *fw.Rec) {
			res := expo.BaseOnly(w)
			x.Describe(expo.Describe(w))
			x.Outcome(res.Outcome)
			for _, b := range res.WF {
				x.Fail("result not well-formed (C05 invariant) with exposure: "+b, "", strings.Join(res.WF, "\n"))
			}
			for _, b := range res.BaseDiffers {
				x.Fail("base connectivity differs with --exposure", "", b)
			}
			if res.Skipped == "" && res.Outcome != "" {
				x.Nontrivial(res.Outcome)
			}
		})
	}
}

func protClass(b string) string {
	if i := strings.Index(b, ": reported"); i >= 0 {
		return b[i+2:]
	}
	return b
}
