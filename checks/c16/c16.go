// Package c16: --focusworkload is a pure filter of the full report.
package c16

import (
	"fmt"
	"sort"
	"strings"
	"time"

	"k8s.io/cli-runtime/pkg/resource"

	"github.com/np-guard/netpol-analyzer/pkg/netpol/connlist"

	"verif/checks/c01"
	"verif/checks/c02"
	"verif/checks/c09"
	"verif/checks/c10"
	"verif/checks/expo"
	"verif/fw"
	"verif/parse"
	"verif/wm"
)

func init() { fw.Register("C16", "exploration", Run) }

var all = &wm.Sel{}

func worlds() []*wm.World {
	wls := []wm.Workload{
		{Kind: "Deployment", NS: "ns1", Name: "w", Labels: map[string]string{"app": "a"}, Ports: []wm.CPort{{Name: "http", Num: 80}}, Replicas: 1},
		{Kind: "Deployment", NS: "ns2", Name: "w", Labels: map[string]string{"app": "a"}, Ports: []wm.CPort{{Num: 80}}, Replicas: 1},
		{Kind: "StatefulSet", NS: "ns1", Name: "z", Labels: map[string]string{"app": "b"}, Ports: []wm.CPort{{Num: 8080}}, Replicas: 2},
		{Kind: "Deployment", NS: "ns3", Name: "other", Labels: map[string]string{"app": "c"}, Replicas: 1},
	}
	np1 := wm.NP{NS: "ns1", Name: "p", PodSel: *wm.ML("app", "a"), Types: []string{"Ingress", "Egress"},
		Ingress: []wm.NPRule{{Peers: []wm.NPPeer{{Pod: all}, {CIDR: "10.0.0.0/8"}}}},
		Egress:  []wm.NPRule{{Peers: []wm.NPPeer{{NSSel: all}}, Ports: []wm.NPPort{{HasPort: true, Num: 80}}}}}
	// an ipBlock policy in a namespace that holds no workload named w or z: it refines the IP partition for everybody
	np3 := wm.NP{NS: "ns3", Name: "q", PodSel: wm.Sel{}, Types: []string{"Egress"}, Egress: []wm.NPRule{{Peers: []wm.NPPeer{{CIDR: "192.168.0.0/16", Except: []string{"192.168.1.0/24"}}, {NSSel: all}}}}}
	p80 := []wm.APort{{Kind: "num", Proto: "TCP", Num: 80}}
	svc := []wm.Svc{{NS: "ns1", Name: "s", Sel: map[string]string{"app": "a"}, Ports: []wm.SvcPort{{Port: 80}}}, {NS: "ns1", Name: "sz", Sel: map[string]string{"app": "b"}, Ports: []wm.SvcPort{{Port: 8080}}}}
	ing := []wm.Ing{{NS: "ns1", Name: "i", Default: &wm.Backend{Svc: "s", PortNum: 80}, Rules: []wm.Backend{{Svc: "sz", PortNum: 8080}}}}
	sameNameKinds := []wm.Workload{
		{Kind: "Deployment", NS: "ns1", Name: "w", Labels: map[string]string{"app": "a"}, Replicas: 1},
		{Kind: "StatefulSet", NS: "ns2", Name: "w", Labels: map[string]string{"app": "b"}, Replicas: 1},
		{Kind: "Deployment", NS: "ns2", Name: "ingress-controller", Labels: map[string]string{"app": "ic"}, Replicas: 1},
		// a second workload ns1/w of another kind (a Pod controlled by ReplicaSet w): the focus ns1/w names both
		{Kind: "Pod", NS: "ns1", Name: "w-0", Owner: "w", Labels: map[string]string{"app": "z"}},
	}
	// names that are valid DNS subdomains but not DNS labels (dots, more than 63 characters), digits first
	odd := []wm.Workload{
		{Kind: "Deployment", NS: "ns1", Name: "payments.v2", Labels: map[string]string{"app": "a"}, Ports: []wm.CPort{{Num: 80}}, Replicas: 1},
		{Kind: "Deployment", NS: "ns1", Name: LongName, Labels: map[string]string{"app": "b"}, Replicas: 1},
		{Kind: "StatefulSet", NS: "ns-2.x", Name: "1w", Labels: map[string]string{"app": "c"}, Replicas: 1},
		// real workloads that carry the names of the tool's pseudo peers
		{Kind: "Pod", NS: "ns1", Name: "representative-pod", Labels: map[string]string{"app": "a"}},
	}
	// nothing may talk to anything, except that the workloads of ns1 admit any namespace: the {ingress-controller} lines are the whole report
	var isolated []wm.NP
	for _, ns := range []string{"ns1", "ns2", "ns3"} {
		isolated = append(isolated, wm.NP{NS: ns, Name: "deny-all", PodSel: wm.Sel{}, Types: []string{"Ingress", "Egress"}})
	}
	isolated = append(isolated, wm.NP{NS: "ns1", Name: "from-any-namespace", PodSel: wm.Sel{}, Types: []string{"Ingress"}, Ingress: []wm.NPRule{{Peers: []wm.NPPeer{{NSSel: all}}}}})
	return []*wm.World{
		{WLs: wls, NPs: isolated, Svcs: svc, Ings: ing},
		{WLs: odd, NPs: []wm.NP{np1}},
		{WLs: wls},
		{WLs: wls, NPs: []wm.NP{np1}},
		{WLs: wls, NPs: []wm.NP{np1, np3}},
		{WLs: wls, NPs: []wm.NP{np3}},
		{WLs: wls, NPs: []wm.NP{np1, np3}, Svcs: svc, Ings: ing},
		{WLs: wls, Svcs: svc, Ings: ing},
		{WLs: wls, NPs: []wm.NP{np3}, ANPs: []wm.ANP{{Name: "a", Prio: 5, Subject: wm.APeer{Namespaces: all}, Egress: []wm.ARule{{Action: "Deny", Peers: []wm.APeer{{Namespaces: wm.ML(wm.NSNameKey, "ns2")}}, Ports: &p80}}}}},
		{WLs: sameNameKinds, NPs: []wm.NP{np3}},
		{WLs: sameNameKinds, Svcs: []wm.Svc{{NS: "ns1", Name: "s", Sel: map[string]string{"app": "a"}, Ports: []wm.SvcPort{{Port: 80}}}}, Ings: []wm.Ing{{NS: "ns1", Name: "i", Default: &wm.Backend{Svc: "s", PortNum: 80}}}},
	}
}

// LongName is a 72-character workload name.
var LongName = "a123456789-b123456789-c123456789-d123456789-e123456789-f123456789-g12345678"

var focuses = []string{"representative-pod", "ns1/representative-pod", "ns1-w", "ns1xw", "ns1w", "payments.v2", "ns1/payments.v2", LongName, "ns1/" + LongName, "1w", "ns-2.x/1w", "w", "ns1/w", "ns2/w", "z", "ns1/z", "ns2/z", "other", "ns3/other", "nosuch", "ns1/nosuch", "ingress-controller", "ns2/ingress-controller", "w[Deployment]", "ns1/w[Deployment]", "ns1", "W", "/"}

type Case struct {
	WI       int
	W        *wm.World // set for worlds drawn from other scopes (WI unused)
	Focus    string
	Exposure bool
}

func relation(conns []connlist.Peer2PeerConnection) map[string]string {
	m := map[string]string{}
	for _, c := range conns {
		k := c.Src().String() + "|" + c.Dst().String()
		if _, dup := m[k]; dup {
			m[k] = "DUPLICATE"
			continue
		}
		m[k] = connKey(c)
	}
	return m
}

func connKey(c connlist.Peer2PeerConnection) string {
	if c.AllProtocolsAndPorts() {
		return "All Connections"
	}
	mm := map[string][]wm.Interval{}
	for p, rs := range c.ProtocolsAndPorts() {
		for _, r := range rs {
			mm[string(p)] = append(mm[string(p)], wm.Interval{Lo: int(r.Start()), Hi: int(r.End())})
		}
	}
	return wm.ConnString(mm)
}

func relKey(m map[string]string) string {
	var s []string
	for k, v := range m {
		s = append(s, k+" : "+v)
	}
	sort.Strings(s)
	return strings.Join(s, "\n")
}

func eval(cs Case, x *fw.Rec) {
	w := cs.W
	if w == nil {
		w = worlds()[cs.WI]
	}
	infos := w.Infos()
	x.Describe(func() any {
		return map[string]any{"world": w.Brief(), "focus": cs.Focus, "exposure": cs.Exposure, "manifests": w.YAMLDocs()}
	})
	mk := func(focus, format string) *connlist.ConnlistAnalyzer {
		opts := []connlist.ConnlistAnalyzerOption{connlist.WithLogger(wm.Quiet()), connlist.WithMuteErrsAndWarns(), connlist.WithOutputFormat(format)}
		if focus != "" {
			opts = append(opts, connlist.WithFocusWorkload(focus))
		}
		if cs.Exposure {
			opts = append(opts, connlist.WithExposureAnalysis())
		}
		return connlist.NewConnlistAnalyzer(opts...)
	}
	fullConns, fullPeers, err := mk("", "txt").ConnlistFromResourceInfos(infos)
	if err != nil {
		if wm.IsNamedPortOnIPErr(err) {
			x.Count("skipped_documented_named_port_error", 1) // documented deviation (C01): such inputs have no report to filter
			return
		}
		x.Fail("harness: unfocused analysis fails", "", err.Error())
		return
	}
	full := relation(fullConns)
	// which peers match W: a workload whose name or namespace/name equals W (the {ingress-controller} pseudo peer by its name)
	match := func(c connlist.Peer) bool {
		if c.IsPeerIPType() {
			return false
		}
		return c.Name() == cs.Focus || c.Namespace()+"/"+c.Name() == cs.Focus
	}
	want := map[string]string{}
	for _, c := range fullConns {
		if match(c.Src()) || match(c.Dst()) {
			want[c.Src().String()+"|"+c.Dst().String()] = connKey(c)
		}
	}
	_ = full
	ca := mk(cs.Focus, "txt")
	conns, _, err := ca.ConnlistFromResourceInfos(infos)
	if err != nil {
		x.Fail("focused analysis returns an error", "", fmt.Sprintf("focus %q: %v", cs.Focus, err))
		return
	}
	got := relation(conns)
	x.Outcome(fmt.Sprintf("%d|%s|%s", cs.WI, cs.Focus, relKey(got)))
	if relKey(got) != relKey(want) {
		x.Fail("focused report is not the filter of the full report", "", fmt.Sprintf("focus %q\n--- focused report\n%s\n--- entries of the full report whose source or destination matches\n%s", cs.Focus, relKey(got), relKey(want)))
	}
	exists := cs.Focus == "ingress-controller" && len(w.Ings)+len(w.Routes) > 0 // the pseudo peer takes part in the analysis
	for _, p := range fullPeers {
		if match(p) {
			exists = true
		}
	}
	if len(want) == 0 && !exists {
		warned := false
		for _, e := range ca.Errors() {
			if strings.Contains(e.Error().Error(), cs.Focus) && !e.IsFatal() && !e.IsSevere() {
				warned = true
			}
		}
		if !warned && len(got) == 0 {
			x.Fail("nothing matches the focus workload but no warning is given", "", fmt.Sprintf("focus %q: Errors() = %v", cs.Focus, len(ca.Errors())))
		}
	} else if len(want) > 0 {
		x.Nontrivial(fmt.Sprintf("%d|%s|%v", cs.WI, cs.Focus, cs.Exposure))
		x.Sample(map[string]any{"world": w.Brief(), "focus": cs.Focus, "entries": len(want), "of": len(full)})
	}
	// every format must encode the same filtered relation
	for _, f := range c09.ListFormats {
		caf := mk(cs.Focus, f)
		cf, _, err := caf.ConnlistFromResourceInfos(infos)
		if err != nil {
			x.Fail("focused analysis returns an error", "", fmt.Sprintf("focus %q format %s: %v", cs.Focus, f, err))
			continue
		}
		out, err := caf.ConnectionsListToString(cf)
		if err != nil {
			x.Fail(f+": formatting the focused report fails", "", err.Error())
			continue
		}
		pl, err := c09.ParseList(f, out)
		if err != nil {
			x.Fail(f+": focused output cannot be parsed", "", err.Error()+"\n"+out)
			continue
		}
		g := map[string]string{}
		for _, t := range pl.Conns {
			g[t.Src+"|"+t.Dst] = t.Conn
		}
		if relKey(g) != relKey(want) {
			x.Fail(f+": focused output does not encode the filtered relation", "", fmt.Sprintf("focus %q\n--- parsed\n%s\n--- expected\n%s\n--- output\n%s", cs.Focus, relKey(g), relKey(want), out))
		}
		if !cs.Exposure {
			continue
		}
		// the exposure sections are entries of the report too: the focused ones are exactly the unfocused ones of the workloads matching W
		cau := mk("", f)
		cu, _, err := cau.ConnlistFromResourceInfos(infos)
		if err != nil {
			continue
		}
		outU, err := cau.ConnectionsListToString(cu)
		if err != nil {
			continue
		}
		plU, err := c09.ParseList(f, outU)
		if err != nil {
			x.Fail(f+": unfocused output cannot be parsed", "", err.Error()+"\n"+outU)
			continue
		}
		wantX, gotX := expoLines(plU, cs.Focus, true), expoLines(pl, cs.Focus, false)
		if wantX != gotX {
			x.Fail(f+": exposure sections of the focused report are not the filter of the unfocused ones", "", fmt.Sprintf("focus %q\n--- focused\n%s\n--- entries of the unfocused exposure sections whose workload matches\n%s\n--- focused output\n%s\n--- unfocused output\n%s", cs.Focus, gotX, wantX, out, outU))
		}
		if wantX != "" {
			x.Count("exposure_sections_compared_nonempty", 1)
		}
	}
}

type reuseCase struct {
	W1, W2   int
	Focus    string
	Exposure bool
	Format   string
}

func evalReuse(cs reuseCase, x *fw.Rec) {
	ws := worlds()
	i1, i2 := ws[cs.W1].Infos(), ws[cs.W2].Infos()
	x.Describe(func() any {
		return map[string]any{"first": ws[cs.W1].Brief(), "second": ws[cs.W2].Brief(), "focus": cs.Focus, "exposure": cs.Exposure, "format": cs.Format, "second manifests": ws[cs.W2].YAMLDocs()}
	})
	mk := func() *connlist.ConnlistAnalyzer {
		opts := []connlist.ConnlistAnalyzerOption{connlist.WithLogger(wm.Quiet()), connlist.WithMuteErrsAndWarns(), connlist.WithOutputFormat(cs.Format), connlist.WithFocusWorkload(cs.Focus)}
		if cs.Exposure {
			opts = append(opts, connlist.WithExposureAnalysis())
		}
		return connlist.NewConnlistAnalyzer(opts...)
	}
	render := func(ca *connlist.ConnlistAnalyzer, infos []*resource.Info) (string, int) {
		before := len(ca.Errors())
		conns, peers, err := ca.ConnlistFromResourceInfos(infos)
		if err != nil {
			return "ERROR", len(ca.Errors()) - before
		}
		out, err := ca.ConnectionsListToString(conns)
		if err != nil {
			out = "FORMAT ERROR"
		}
		var ps []string
		for _, p := range peers {
			ps = append(ps, p.String())
		}
		sort.Strings(ps)
		return out + "\n--- relation\n" + relKey(relation(conns)) + "\n--- peers\n" + strings.Join(ps, ","), len(ca.Errors()) - before
	}
	fresh, freshMsgs := render(mk(), i2)
	used := mk()
	first, _ := render(used, i1)
	second, secondMsgs := render(used, i2)
	x.Outcome(fmt.Sprintf("%d|%d|%s|%v|%s", cs.W1, cs.W2, cs.Focus, cs.Exposure, second))
	if first != "ERROR" && cs.W1 != cs.W2 {
		x.Nontrivial(fmt.Sprintf("%d|%d|%s", cs.W1, cs.W2, cs.Focus))
	}
	if first == "ERROR" {
		x.Count("first_use_ended_in_an_error (an analyzer keeps its errors: not compared)", 1)
		return
	}
	if second != fresh {
		x.Fail("an analyzer used before gives another focused report than a fresh one", "", fmt.Sprintf("focus %q format %s\n--- second use\n%s\n--- fresh analyzer\n%s", cs.Focus, cs.Format, second, fresh))
	}
	if secondMsgs != freshMsgs {
		x.Fail("an analyzer used before adds another number of warnings than a fresh one", "", fmt.Sprintf("focus %q: %d entries added to Errors() by the second use, %d by a fresh analyzer", cs.Focus, secondMsgs, freshMsgs))
	}
}

// expoLines renders the exposure sections (optionally only the lines of workloads matching the focus string).
func expoLines(pl parse.List, focus string, filter bool) string {
	match := func(wl string) bool {
		if i := strings.Index(wl, "["); i >= 0 {
			wl = wl[:i]
		}
		name := wl
		if i := strings.Index(wl, "/"); i >= 0 {
			name = wl[i+1:]
		}
		return !filter || name == focus || wl == focus
	}
	var s []string
	for _, e := range pl.Egress {
		if match(e.Workload) {
			s = append(s, "egress|"+e.Workload+"|"+e.Peer+"|"+e.Conn)
		}
	}
	for _, e := range pl.Ingress {
		if match(e.Workload) {
			s = append(s, "ingress|"+e.Workload+"|"+e.Peer+"|"+e.Conn)
		}
	}
	for _, u := range pl.Unprotected {
		if match(strings.SplitN(u, "|", 2)[0]) {
			s = append(s, "unprotected|"+u)
		}
	}
	sort.Strings(s)
	return strings.Join(s, "\n")
}

func Run(r *fw.Run) {
	r.Rule = "11 worlds (one where the {ingress-controller} lines are the whole report; names with dots / longer than 63 characters / starting with a digit, a name shared by workloads of two namespaces and of two kinds, a workload named ingress-controller, ipBlock policies in namespaces without a matching workload, Service + Ingress, ANP) x 26 focus strings (one of them just a slash) (among them namespace and name joined by a character other than '/') (names, namespace/names, absent names, ingress-controller, strings with [Kind], a namespace name, wrong case) x exposure on/off; the focused API relation must equal the filter of the unfocused relation (same keys incl. IP ranges, same connections) and each of the five formats must parse back to it; with exposure the exposure sections of the focused output must equal, format by format, the lines of the unfocused exposure sections whose workload matches (worlds of the exposure scopes give a focus workload several representative peers); non-trivial = the filter keeps at least one entry; distinct = distinct (world, focus) reports"
	r.Assume = []string{"focus strings are syntactically valid workload names (name or namespace/name, both parts non-empty); the degenerate '/' is excluded (it matches every IP peer)", "uses the C09 parsers"}
	if r.Quick() {
		r.SetBudget(300 * time.Second)
	} else {
		r.SetBudget(20 * time.Minute)
	}
	ws := worlds()
	fw.Explore(r, "focus", fw.Full, func(c *fw.Ctx) Case {
		wi := c.Choose(len(ws), "world")
		f := fw.Pick(c, focuses, "focus workload")
		exp := c.Choose(2, "exposure") == 1
		if exp && len(ws[wi].ANPs) > 0 {
			c.Skip()
		}
		return Case{WI: wi, Focus: f, Exposure: exp}
	}, eval)
	// one analyzer object used for two inputs in a row: the second answer must be the one a fresh analyzer gives (the focus
	// peers found in the first input must not survive into the second)
	fw.Explore(r, "focus/analyzer-reuse", fw.Full, func(c *fw.Ctx) reuseCase {
		w1 := c.Choose(len(ws), "first world")
		w2 := c.Choose(len(ws), "second world")
		f := fw.Pick(c, focuses, "focus workload")
		exp := c.Choose(2, "exposure") == 1
		if exp && (len(ws[w1].ANPs) > 0 || len(ws[w2].ANPs) > 0) {
			c.Skip()
		}
		format := fw.Pick(c, []string{"txt", "dot"}, "format")
		if r.Quick() {
			c.Stride(5)
		}
		return reuseCase{W1: w1, W2: w2, Focus: f, Exposure: exp, Format: format}
	}, evalReuse)
	// worlds of other scopes, focus on each of their workloads (by name and by namespace/name) and on an absent one
	type src struct {
		name   string
		gen    func(*fw.Ctx) *wm.World
		stride int
	}
	srcs := []src{{"c10-ingress", c10.GenIngress, 1500}, {"c10-route", c10.GenRoute, 2500}, {"c10-ingress+route", c10.GenBoth, 16}}
	for _, sc := range c02.Scopes(true) {
		if sc.Name == "S-stack" {
			srcs = append(srcs, src{"c02-" + sc.Name, sc.Gen, 300})
		}
	}
	for _, sc := range c01.Scopes(true) {
		if sc.Name == "S-sel-ip" || sc.Name == "S-rules" {
			srcs = append(srcs, src{"c01-" + sc.Name, sc.Gen, map[string]int{"S-sel-ip": 400, "S-rules": 30}[sc.Name]})
		}
	}
	for _, sc := range expo.Scopes(true) {
		// exposure worlds: a focus workload exposed to several representative peers at once
		srcs = append(srcs, src{"expo-" + sc.Name, sc.Gen, map[string]int{"shared-policy": 16, "one-policy/two-rules": 200, "two-policies": 12}[sc.Name]})
	}
	for _, sc := range srcs {
		sc := sc
		st := sc.stride
		if !r.Quick() {
			st = (st + 9) / 10
		}
		fw.Explore(r, "focus/"+sc.name, fw.Full, func(c *fw.Ctx) Case {
			w := sc.gen(c)
			c.Stride(st)
			n := w.NormalizeNS()
			var fs []string
			for _, wl := range n.WLs {
				fs = append(fs, wl.Name, wl.NS+"/"+wl.Name)
			}
			fs = append(fs, "nosuch", "ingress-controller")
			if len(n.WLs) > 0 {
				fs = append(fs, n.WLs[0].NS+"-"+n.WLs[0].Name) // namespace and name glued by another character: names no workload
			}
			f := fw.Pick(c, fs, "focus workload")
			exp := c.Choose(2, "exposure") == 1
			if exp && (len(w.ANPs) > 0 || w.BANP != nil) {
				c.Skip()
			}
			return Case{W: w, Focus: f, Exposure: exp}
		}, eval)
	}
}
