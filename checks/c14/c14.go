// Package c14: NetworkPolicies are additive and local; equivalent spellings agree.
// Oracle-free (metamorphic) relations between two runs of the real list on a world and on its
// single-step edit, compared pointwise on the common refinement of both results.
package c14

import (
	"fmt"
	"strings"
	"time"

	"verif/checks/c01"
	"verif/fw"
	"verif/wm"
)

func init() { fw.Register("C14", "exploration", Run) }

type relKind int

const (
	relEq  relKind = iota
	relSub         // before ⊆ after ("never removes")
	relSup         // before ⊇ after ("never adds")
)

func (k relKind) String() string { return [...]string{"equal", "never-removes", "never-adds"}[k] }

type edit struct {
	name  string
	after *wm.World
	rel   relKind
	has   bool                  // rel applies (otherwise only locality)
	local func(p wm.Point) bool // nil = no locality claim; true = point must be unchanged
}

// compareBoth checks the relation on the plain report and on the base connectivity reported with exposure analysis on.
func compareBoth(before *wm.World, tb, tbX wm.ToolResult, e edit, x *fw.Rec) {
	compare(before, tb, e, x, false)
	e.name += " [list --exposure]"
	compare(before, tbX, e, x, true)
}

func compare(before *wm.World, tb wm.ToolResult, e edit, x *fw.Rec, exposure bool) {
	ta, _ := wm.RunList(e.after.Infos(), exposure)
	x.Count("relation_instances", 1)
	if tb.Err != nil || ta.Err != nil {
		for _, t := range []wm.ToolResult{tb, ta} {
			if t.Err != nil && !wm.IsNamedPortOnIPErr(t.Err) {
				x.Fail("unexpected error: "+t.Err.Error(), "", e.name)
			}
		}
		x.Count("skipped_documented_named_port_error", 1)
		return
	}
	names := wm.WorkloadNames(before, e.after)
	for _, p := range wm.Points(names, tb, ta) {
		a, b := tb.AtPoint(p), ta.AtPoint(p)
		if e.has {
			ok := true
			switch e.rel {
			case relEq:
				ok = a == b
			case relSub:
				ok = wm.ConnSubset(a, b)
			case relSup:
				ok = wm.ConnSubset(b, a)
			}
			if !ok {
				x.Fail(fmt.Sprintf("%s: relation %q violated", kindOf(e.name), e.rel), "",
					fmt.Sprintf("edit: %s\nat %s: before=%q after=%q\nafter-world: %s", e.name, p, a, b, strings.Join(e.after.Brief(), "\n  ")))
				return
			}
		}
		if e.local != nil && e.local(p) && a != b {
			x.Fail(fmt.Sprintf("%s: locality violated", kindOf(e.name)), "",
				fmt.Sprintf("edit: %s\nat %s (new policy selects neither src for egress nor dst for ingress): before=%q after=%q\nafter-world: %s", e.name, p, a, b, strings.Join(e.after.Brief(), "\n  ")))
			return
		}
	}
}

func kindOf(name string) string {
	if i := strings.Index(name, " "); i > 0 {
		return name[:i]
	}
	return name
}

func cloneWorld(w *wm.World) *wm.World {
	c := *w
	c.NPs = make([]wm.NP, len(w.NPs))
	for i, np := range w.NPs {
		c.NPs[i] = np
		c.NPs[i].Ingress = append([]wm.NPRule{}, np.Ingress...)
		c.NPs[i].Egress = append([]wm.NPRule{}, np.Egress...)
	}
	return &c
}

// selects: does policy np select workload wl (reference selector matching only)?
func selects(np *wm.NP, wl *wm.Workload) bool {
	ns := func(s string) string {
		if s == "" {
			return "default"
		}
		return s
	}
	return ns(np.NS) == ns(wl.NS) && np.PodSel.Matches(wl.Labels)
}

// addPolicyEdit classifies the new policy against the base world.
func addPolicyEdit(w *wm.World, np wm.NP) edit {
	after := cloneWorld(w)
	np.Name = "zz-new"
	after.NPs = append(after.NPs, np)
	allGov, allUngov := true, true
	selEg, selIn := map[string]bool{}, map[string]bool{}
	nw := w.NormalizeNS()
	for i := range nw.WLs {
		wl := &nw.WLs[i]
		if !selects(&np, wl) {
			continue
		}
		for _, dir := range []string{"Ingress", "Egress"} {
			if !np.Governs(dir) {
				continue
			}
			if dir == "Egress" {
				selEg[wl.PeerString()] = true
			} else {
				selIn[wl.PeerString()] = true
			}
			gov := false
			for j := range nw.NPs {
				if selects(&nw.NPs[j], wl) && nw.NPs[j].Governs(dir) {
					gov = true
				}
			}
			if gov {
				allUngov = false
			} else {
				allGov = false
			}
		}
	}
	e := edit{name: "add-policy " + np.String(), after: after}
	switch {
	case allGov && allUngov:
		e.rel, e.has = relEq, true // selects nothing
	case allGov:
		e.rel, e.has = relSub, true
	case allUngov:
		e.rel, e.has = relSup, true
	}
	e.local = func(p wm.Point) bool {
		return !(!p.SrcIP && selEg[p.Src]) && !(!p.DstIP && selIn[p.Dst])
	}
	return e
}

// ---- spelling rewrites (each returns nil if not applicable) ----

func mlToIn(s *wm.Sel) (*wm.Sel, bool) {
	if s == nil || len(s.ML) == 0 {
		return s, false
	}
	n := &wm.Sel{ME: append([]wm.Req{}, s.ME...)}
	keys := make([]string, 0, len(s.ML))
	for k := range s.ML {
		keys = append(keys, k)
	}
	// deterministic order
	for i := range keys {
		for j := i + 1; j < len(keys); j++ {
			if keys[j] < keys[i] {
				keys[i], keys[j] = keys[j], keys[i]
			}
		}
	}
	for _, k := range keys {
		n.ME = append(n.ME, wm.Req{Key: k, Op: "In", Vals: []string{s.ML[k]}})
	}
	return n, true
}

func mapRules(np *wm.NP, f func(r wm.NPRule) wm.NPRule) {
	for i := range np.Ingress {
		np.Ingress[i] = f(np.Ingress[i])
	}
	for i := range np.Egress {
		np.Egress[i] = f(np.Egress[i])
	}
}

func spellings(w *wm.World) []edit {
	var res []edit
	// (a) matchLabels -> single-value In, everywhere
	{
		a := cloneWorld(w)
		changed := false
		for i := range a.NPs {
			if s, ok := mlToIn(&a.NPs[i].PodSel); ok {
				a.NPs[i].PodSel = *s
				changed = true
			}
			mapRules(&a.NPs[i], func(r wm.NPRule) wm.NPRule {
				r.Peers = append([]wm.NPPeer{}, r.Peers...)
				for k := range r.Peers {
					if s, ok := mlToIn(r.Peers[k].Pod); ok {
						r.Peers[k].Pod = s
						changed = true
					}
					if s, ok := mlToIn(r.Peers[k].NSSel); ok {
						r.Peers[k].NSSel = s
						changed = true
					}
				}
				return r
			})
		}
		if changed {
			res = append(res, edit{name: "spelling-In matchLabels as single-value In", after: a, rel: relEq, has: true})
		}
	}
	// (b) a port range as two adjacent ranges
	{
		a := cloneWorld(w)
		changed := false
		for i := range a.NPs {
			mapRules(&a.NPs[i], func(r wm.NPRule) wm.NPRule {
				var ports []wm.NPPort
				for _, p := range r.Ports {
					if p.HasPort && p.Name == "" && p.End > p.Num {
						mid := p.Num + (p.End-p.Num)/2
						lo, hi := p, p
						lo.End = mid
						if lo.End == lo.Num {
							lo.End = 0
						}
						hi.Num = mid + 1
						if hi.End == hi.Num {
							hi.End = 0
						}
						ports = append(ports, lo, hi)
						changed = true
					} else {
						ports = append(ports, p)
					}
				}
				r.Ports = ports
				return r
			})
		}
		if changed {
			res = append(res, edit{name: "spelling-range one range as two adjacent ranges", after: a, rel: relEq, has: true})
		}
	}
	// (c) a CIDR as its two halves (excepts go to the half containing them)
	{
		a := cloneWorld(w)
		changed := false
		for i := range a.NPs {
			mapRules(&a.NPs[i], func(r wm.NPRule) wm.NPRule {
				var peers []wm.NPPeer
				for _, p := range r.Peers {
					h1, h2, ok := halves(p)
					if ok {
						peers = append(peers, h1, h2)
						changed = true
					} else {
						peers = append(peers, p)
					}
				}
				r.Peers = peers
				return r
			})
		}
		if changed {
			res = append(res, edit{name: "spelling-cidr a CIDR as its two halves", after: a, rel: relEq, has: true})
		}
	}
	// (d) one policy with >=2 rules in a direction <-> the rules split over two policies, same selector
	for i := range w.NPs {
		np := w.NPs[i]
		if len(np.Ingress) < 2 && len(np.Egress) < 2 {
			continue
		}
		a := cloneWorld(w)
		p1, p2 := a.NPs[i], a.NPs[i]
		p2.Name = np.Name + "-split"
		// both halves must govern the same directions as the original: make policyTypes explicit
		var types []string
		for _, d := range []string{"Ingress", "Egress"} {
			if np.Governs(d) {
				types = append(types, d)
			}
		}
		p1.Types, p2.Types = types, types
		if len(np.Ingress) >= 2 {
			p1.Ingress, p2.Ingress = np.Ingress[:1], np.Ingress[1:]
		}
		if len(np.Egress) >= 2 {
			p1.Egress, p2.Egress = np.Egress[:1], np.Egress[1:]
		}
		a.NPs[i] = p1
		a.NPs = append(a.NPs, p2)
		res = append(res, edit{name: "spelling-split one policy as two policies with the same selector", after: a, rel: relEq, has: true})
	}
	// (e) explicit <-> defaulted policyTypes
	{
		a := cloneWorld(w)
		changed := false
		for i := range a.NPs {
			np := &a.NPs[i]
			if np.Types == nil {
				np.Types = []string{"Ingress"}
				if len(np.Egress) > 0 {
					np.Types = append(np.Types, "Egress")
				}
				changed = true
			} else {
				hasE, hasI := false, false
				for _, t := range np.Types {
					hasE = hasE || t == "Egress"
					hasI = hasI || t == "Ingress"
				}
				if hasI && hasE == (len(np.Egress) > 0) {
					np.Types = nil
					changed = true
				}
			}
		}
		if changed {
			res = append(res, edit{name: "spelling-types explicit vs defaulted policyTypes", after: a, rel: relEq, has: true})
		}
	}
	return res
}

func halves(p wm.NPPeer) (wm.NPPeer, wm.NPPeer, bool) {
	if p.CIDR == "" || strings.Contains(p.CIDR, ":") || strings.Contains(strings.Join(p.Except, ","), ":") {
		return p, p, false // no ipBlock, or IPv6 parts
	}
	var a, b, c, d, n int
	fmt.Sscanf(p.CIDR, "%d.%d.%d.%d/%d", &a, &b, &c, &d, &n)
	if n >= 32 {
		return p, p, false
	}
	lo, hi := wm.CIDRRange(p.CIDR)
	mid := lo + (hi-lo)/2 + 1
	str := func(x uint32, n int) string {
		return fmt.Sprintf("%d.%d.%d.%d/%d", x>>24, x>>16&255, x>>8&255, x&255, n)
	}
	h1, h2 := wm.NPPeer{CIDR: str(lo, n+1)}, wm.NPPeer{CIDR: str(mid, n+1)}
	for _, e := range p.Except {
		elo, ehi := wm.CIDRRange(e)
		switch {
		case ehi < mid:
			h1.Except = append(h1.Except, e)
		case elo >= mid:
			h2.Except = append(h2.Except, e)
		default:
			return p, p, false // except spans both halves
		}
	}
	return h1, h2, true
}

func describe(w *wm.World) func() any {
	return func() any { return map[string]any{"world": w.Brief(), "manifests": w.YAMLDocs()} }
}

func Run(r *fw.Run) {
	r.Rule = "for every world of the scopes every applicable single-step edit (add rule, add policy classified by selector matching, five spelling rewrites) is applied; both worlds go through the real list, without and with exposure analysis (whose base connectivity must obey the same relations), and are compared pointwise on the common refinement of their IP ranges; an execution is non-trivial when at least one relation instance was compared on a non-empty report; distinct = distinct (report, edit kinds) combinations"
	r.Assume = []string{"NetworkPolicy-only worlds from the alphabets of C01 (<=3 workloads, <=2 policies before the edit)",
		"pairs where either run ends in the documented named-port-on-IP error are skipped and counted"}
	if r.Quick() {
		r.SetBudget(300 * time.Second)
	} else {
		r.SetBudget(25 * time.Minute)
	}
	// S-spell: equivalent spellings over the C01 world scopes
	for _, sc := range c01.Scopes(r.Quick()) {
		sc := sc
		if r.Quick() && (sc.Name == "S-multi") {
			continue
		}
		fw.Explore(r, "spell/"+sc.Name, sc.Mode, sc.Gen, func(w *wm.World, x *fw.Rec) {
			tb, _ := wm.RunList(w.Infos(), false)
			tbX, _ := wm.RunList(w.Infos(), true)
			x.Describe(describe(w))
			var kinds []string
			for _, e := range spellings(w) {
				compareBoth(w, tb, tbX, e, x)
				kinds = append(kinds, kindOf(e.name))
			}
			x.Outcome(tb.OutcomeKey() + strings.Join(kinds, ","))
			if len(kinds) > 0 && tb.Err == nil && len(tb.Conns) > 0 {
				x.Nontrivial(tb.OutcomeKey() + strings.Join(kinds, ","))
				x.Sample(map[string]any{"world": w.Brief(), "edits": kinds})
			}
		})
	}

	// S-addrule: a policy governing a direction gets one more rule in that direction
	rules := ruleAlphabet()
	r.Bounds["rule_alphabet"] = len(rules)
	fw.Explore(r, "S-addrule", fw.Full, func(c *fw.Ctx) [2]*wm.World {
		dir := fw.Pick(c, []string{"Ingress", "Egress"}, "direction")
		types := fw.Pick(c, c01.TypesAlpha, "policyTypes")
		sel := fw.Pick(c, []*wm.Sel{wm.ML("app", "a"), {}, wm.ME("app", "NotIn", "a")}, "podSelector")
		n1 := c.Choose(len(rules)+1, "existing rule (0=none)")
		n2 := c.Choose(len(rules), "added rule")
		np := wm.NP{NS: "ns1", Name: "p", PodSel: *sel, Types: types}
		var rs []wm.NPRule
		if n1 > 0 {
			rs = append(rs, rules[n1-1])
		}
		if dir == "Egress" {
			np.Egress = rs
		} else {
			np.Ingress = rs
		}
		if !np.Governs(dir) {
			c.Skip()
		}
		np2 := np
		if dir == "Egress" {
			np2.Egress = append(append([]wm.NPRule{}, rs...), rules[n2])
		} else {
			np2.Ingress = append(append([]wm.NPRule{}, rs...), rules[n2])
		}
		mk := func(p wm.NP) *wm.World {
			return &wm.World{NSs: c01.NsConfigs[0], WLs: c01.ThreeWL(c01.CPortAlpha[1], c01.CPortAlpha[2], nil), NPs: []wm.NP{p}}
		}
		return [2]*wm.World{mk(np), mk(np2)}
	}, func(ws [2]*wm.World, x *fw.Rec) {
		tb, _ := wm.RunList(ws[0].Infos(), false)
		tbX, _ := wm.RunList(ws[0].Infos(), true)
		x.Describe(describe(ws[0]))
		compareBoth(ws[0], tb, tbX, edit{name: "add-rule " + ws[1].NPs[0].String(), after: ws[1], rel: relSub, has: true}, x)
		x.Outcome(tb.OutcomeKey())
		if tb.Err == nil && len(tb.Conns) > 0 {
			x.Nontrivial(tb.OutcomeKey() + ws[1].NPs[0].String())
			x.Sample(map[string]any{"before": ws[0].Brief(), "after": ws[1].Brief(), "relation": "never-removes"})
		}
	})

	// S-addpolicy: base world with 0..2 policies, one new policy; classification by selection
	pols := policyAlphabet()
	r.Bounds["policy_alphabet"] = len(pols)
	fw.Explore(r, "S-addpolicy", fw.Full, func(c *fw.Ctx) [2]any {
		b1 := c.Choose(len(pols)+1, "base policy 1 (0=none)")
		b2 := 0
		if b1 > 0 {
			k := 24
			if !r.Quick() {
				k = 2
			}
			b2 = k * c.Choose((len(pols)+k)/k, "base policy 2 (0=none, strided)")
			if b2 > len(pols) {
				c.Skip()
			}
		}
		n := c.Choose(len(pols), "new policy")
		if r.Quick() && (n+b1)%2 == 1 {
			c.Skip() // quick tier: every other new policy (alternating with the base policy index)
		}
		w := &wm.World{NSs: c01.NsConfigs[0], WLs: c01.ThreeWL(c01.CPortAlpha[1], c01.CPortAlpha[2], nil)}
		// a bare Pod that shares namespace and name with the Deployment w1 and has other labels (anything keyed by name alone mixes them up)
		w.WLs = append(w.WLs, wm.Workload{Kind: "Pod", NS: "ns1", Name: "w1", Labels: map[string]string{"app": "z"}})
		if b1 > 0 {
			p := pols[b1-1]
			p.Name = "b1"
			w.NPs = append(w.NPs, p)
		}
		if b2 > 0 {
			p := pols[b2-1]
			p.Name = "b2"
			w.NPs = append(w.NPs, p)
		}
		return [2]any{w, pols[n]}
	}, func(cs [2]any, x *fw.Rec) {
		w, np := cs[0].(*wm.World), cs[1].(wm.NP)
		tb, _ := wm.RunList(w.Infos(), false)
		tbX, _ := wm.RunList(w.Infos(), true)
		x.Describe(describe(w))
		e := addPolicyEdit(w, np)
		compareBoth(w, tb, tbX, e, x)
		cl := "locality-only"
		if e.has {
			cl = e.rel.String()
		}
		x.Count("add-policy class "+cl, 1)
		x.Outcome(tb.OutcomeKey() + "|" + cl)
		if tb.Err == nil {
			x.Nontrivial(tb.OutcomeKey() + np.String())
			x.Sample(map[string]any{"before": w.Brief(), "new policy": np.String(), "class": cl})
		}
	})
}

func ruleAlphabet() []wm.NPRule {
	peers := [][]wm.NPPeer{nil, {{Pod: wm.ML("app", "b")}}, {{NSSel: &wm.Sel{}}}, {{CIDR: "10.0.0.0/8"}}, {{CIDR: "10.0.0.0/8", Except: []string{"10.1.0.0/16"}}}, {{Pod: &wm.Sel{}}, {CIDR: "0.0.0.0/0"}}, {{NSSel: wm.ML("team", "b"), Pod: wm.ML("app", "a")}}}
	ports := [][]wm.NPPort{nil, {{HasPort: true, Num: 80}}, {{HasPort: true, Num: 80, End: 90}}, {{HasPort: true, Name: "http"}}, {{Proto: "UDP"}}, {{HasPort: true, Num: 85, End: 100}, {HasPort: true, Num: 53, Proto: "UDP"}}}
	var rules []wm.NPRule
	for _, p := range peers {
		for _, pt := range ports {
			rules = append(rules, wm.NPRule{Peers: p, Ports: pt})
		}
	}
	return rules
}

func policyAlphabet() []wm.NP {
	var pols []wm.NP
	sels := []*wm.Sel{{}, wm.ML("app", "a"), wm.ML("app", "b"), wm.ME("tier", "Exists")}
	rules := []wm.NPRule{
		{},
		{Peers: []wm.NPPeer{{Pod: wm.ML("app", "b")}}, Ports: []wm.NPPort{{HasPort: true, Num: 80, End: 90}}},
		{Peers: []wm.NPPeer{{NSSel: wm.ML("team", "b")}}},
		{Peers: []wm.NPPeer{{CIDR: "10.0.0.0/8", Except: []string{"10.1.0.0/16"}}, {NSSel: &wm.Sel{}, Pod: wm.ML("app", "a")}}, Ports: []wm.NPPort{{Proto: "UDP"}}},
	}
	for _, ns := range []string{"ns1", "ns2"} {
		for _, s := range sels {
			for _, types := range c01.TypesAlpha {
				pols = append(pols, wm.NP{NS: ns, PodSel: *s, Types: types})
				for _, rl := range rules {
					pols = append(pols, wm.NP{NS: ns, PodSel: *s, Types: types, Ingress: []wm.NPRule{rl}, Egress: []wm.NPRule{rl}})
				}
			}
		}
	}
	return pols
}
