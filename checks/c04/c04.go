// Package c04: diff is pointwise exact with respect to the two connectivity reports.
package c04

import (
	"fmt"
	"sort"
	"strings"
	"sync"
	"time"

	"verif/fw"
	"verif/wm"
)

func init() { fw.Register("C04", "exploration", Run) }

const kfIngressController = "C04-workload-named-ingress-controller"
const ingressController = "{ingress-controller}"

// Family builds the family of worlds whose ordered pairs are diffed.
func Family(quick bool) []*wm.World {
	var res []*wm.World
	w1 := wm.Workload{Kind: "Deployment", NS: "ns1", Name: "w1", Labels: map[string]string{"app": "a"}, Replicas: 1}
	w2 := wm.Workload{Kind: "Deployment", NS: "ns1", Name: "w2", Labels: map[string]string{"app": "b"}, Replicas: 1}
	w3 := wm.Workload{Kind: "Deployment", NS: "ns2", Name: "w3", Labels: map[string]string{"app": "a"}, Replicas: 1}
	w1s := w1
	w1s.Kind = "StatefulSet"
	ic := wm.Workload{Kind: "Deployment", NS: "ns1", Name: "ingress-controller", Labels: map[string]string{"app": "b"}, Replicas: 1}
	w1ns2 := wm.Workload{Kind: "Deployment", NS: "ns2", Name: "w1", Labels: map[string]string{"app": "a"}, Replicas: 1}                  // the same name in another namespace
	wRes := wm.Workload{Kind: "Deployment", NS: "ingress-controller-ns", Name: "w9", Labels: map[string]string{"app": "a"}, Replicas: 1} // a real workload in the namespace the tool reserves
	topos := [][]wm.Workload{{w1, w2}, {w1, w3}, {w1, w2, w3}, {w1s, w2}, {w1, ic}, {w1, w1ns2}, {w1, wRes}}
	peersets := [][]wm.NPPeer{nil,
		{{CIDR: "10.0.0.0/8"}},
		{{CIDR: "10.0.0.0/9"}, {CIDR: "10.128.0.0/9"}},
		{{CIDR: "10.0.0.0/9"}},
		{{CIDR: "10.0.0.0/8", Except: []string{"10.64.0.0/10"}}},
		{{CIDR: "0.0.0.0/0"}},
		{{Pod: &wm.Sel{}}},
		{{CIDR: "10.0.0.0/9"}, {NSSel: &wm.Sel{}}},
		{{CIDR: "10.0.0.0/24"}},
		{{CIDR: "10.0.2.0/24"}},
	}
	// the last two differ only in the lower end of one range
	if !quick {
		// thorough tier: selector peers and a protocol-only port next to the ipBlock family
		peersets = append(peersets, []wm.NPPeer{{NSSel: wm.ML(wm.NSNameKey, "ns2")}}, []wm.NPPeer{{CIDR: "10.0.0.0/8"}, {Pod: &wm.Sel{}}}, []wm.NPPeer{{CIDR: "0.0.0.0/1"}, {CIDR: "128.0.0.0/1"}})
	}
	ports := [][]wm.NPPort{nil, {{HasPort: true, Num: 80}}, {{HasPort: true, Num: 80}, {HasPort: true, Num: 53, Proto: "UDP"}}, {{HasPort: true, Num: 80, End: 90}}, {{HasPort: true, Num: 85, End: 90}}}
	for ti, t := range topos {
		res = append(res, &wm.World{WLs: t})
		for pi, ps := range peersets {
			for qi, pt := range ports {
				for di, dir := range []string{"Ingress", "Egress"} {
					if false && quick && (ti+pi+qi+di)%2 == 1 {
						continue
					}
					np := wm.NP{NS: "ns1", Name: "p", PodSel: wm.Sel{ML: map[string]string{"app": "a"}}, Types: []string{dir}}
					r := wm.NPRule{Peers: ps, Ports: pt}
					if dir == "Ingress" {
						np.Ingress = []wm.NPRule{r}
					} else {
						np.Egress = []wm.NPRule{r}
					}
					res = append(res, &wm.World{WLs: t, NPs: []wm.NP{np}})
				}
			}
		}
	}
	// two external ranges in one direction of one workload, each with its own multi-protocol connection: between members of
	// this group the ranges change in ways whose (before, after) texts differ only in where they are cut ("SCTP 1,TCP 2" ->
	// "UDP 3" next to "SCTP 1" -> "TCP 2,UDP 3"), a range keeps its connection while its neighbour changes, and a connection
	// moves from one range to another
	{
		sctp1 := wm.NPPort{HasPort: true, Num: 1, Proto: "SCTP"}
		tcp2 := wm.NPPort{HasPort: true, Num: 2}
		udp3 := wm.NPPort{HasPort: true, Num: 3, Proto: "UDP"}
		type rp struct {
			cidr  string
			ports []wm.NPPort
		}
		for _, rules := range [][]rp{
			{{"10.0.0.0/8", []wm.NPPort{sctp1, tcp2}}, {"20.0.0.0/8", []wm.NPPort{sctp1}}},
			{{"10.0.0.0/8", []wm.NPPort{udp3}}, {"20.0.0.0/8", []wm.NPPort{tcp2, udp3}}},
			{{"10.0.0.0/8", []wm.NPPort{tcp2}}, {"20.0.0.0/8", []wm.NPPort{tcp2}}},
			{{"10.0.0.0/8", []wm.NPPort{tcp2}}},
			{{"30.0.0.0/8", []wm.NPPort{tcp2}}},
		} {
			for _, dir := range []string{"Ingress", "Egress"} {
				np := wm.NP{NS: "ns1", Name: "p", PodSel: wm.Sel{ML: map[string]string{"app": "a"}}, Types: []string{dir}}
				for _, r := range rules {
					rl := wm.NPRule{Peers: []wm.NPPeer{{CIDR: r.cidr}}, Ports: r.ports}
					if dir == "Ingress" {
						np.Ingress = append(np.Ingress, rl)
					} else {
						np.Egress = append(np.Egress, rl)
					}
				}
				res = append(res, &wm.World{WLs: topos[0], NPs: []wm.NP{np}})
			}
		}
	}
	// manifest sets without any workload (a Namespace and a policy only; a Namespace only)
	res = append(res, &wm.World{NSs: []wm.NS{{Name: "ns1", Labels: map[string]string{"team": "a"}, HasObj: true}}, NPs: []wm.NP{{NS: "ns1", Name: "p", PodSel: wm.Sel{}, Types: []string{"Ingress"}}}},
		&wm.World{NSs: []wm.NS{{Name: "ns1", Labels: map[string]string{"team": "a"}, HasObj: true}}})
	// admin-policy worlds
	all := &wm.Sel{}
	for _, t := range topos[:3] {
		for _, act := range []string{"Deny", "Allow"} {
			p := []wm.APort{{Kind: "range", Proto: "TCP", Num: 80, End: 90}}
			a := wm.ANP{Name: "a", Prio: 5, Subject: wm.APeer{Namespaces: all}, Egress: []wm.ARule{{Action: act, Peers: []wm.APeer{{Namespaces: all}}, Ports: &p}}}
			res = append(res, &wm.World{WLs: t, ANPs: []wm.ANP{a}, BANP: &wm.ANP{Name: "default", Subject: wm.APeer{Namespaces: all}, Ingress: []wm.ARule{{Action: "Deny", Peers: []wm.APeer{{Namespaces: all}}}}}})
		}
	}
	// ingress worlds: {ingress-controller} lines appear, change and disappear between members
	w1p := w1
	w1p.Ports = []wm.CPort{{Name: "http", Num: 80}, {Num: 8080}}
	for _, pol := range [][]wm.NP{nil,
		{{NS: "ns1", Name: "p", PodSel: wm.Sel{ML: map[string]string{"app": "a"}}, Types: []string{"Ingress"}, Ingress: []wm.NPRule{{Peers: []wm.NPPeer{{NSSel: all}}, Ports: []wm.NPPort{{HasPort: true, Num: 80}}}}}},
		{{NS: "ns1", Name: "p", PodSel: wm.Sel{ML: map[string]string{"app": "a"}}, Types: []string{"Ingress"}}}} {
		for _, svcPorts := range [][]wm.SvcPort{nil, {{Name: "p1", Port: 80}}, {{Name: "p1", Port: 80}, {Name: "p2", Port: 8080}}} {
			w := &wm.World{WLs: []wm.Workload{w1p, w2}, NPs: pol}
			if svcPorts != nil {
				w.Svcs = []wm.Svc{{NS: "ns1", Name: "s", Sel: map[string]string{"app": "a"}, Ports: svcPorts}}
				w.Routes = []wm.Route{{NS: "ns1", Name: "r", To: []string{"s"}}}
			}
			res = append(res, w)
		}
	}
	// a Route / an Ingress whose backend is a Service without selector (ignored with a warning), next to one with a selector
	for _, withSel := range []bool{false, true} {
		w := &wm.World{WLs: []wm.Workload{w1p, w2}}
		w.Svcs = []wm.Svc{{NS: "ns1", Name: "nosel", Sel: nil, Ports: []wm.SvcPort{{Name: "p1", Port: 80}}}}
		w.Routes = []wm.Route{{NS: "ns1", Name: "r", To: []string{"nosel"}}}
		w.Ings = []wm.Ing{{NS: "ns1", Name: "i", Default: &wm.Backend{Svc: "nosel", PortNum: 80}}}
		if withSel {
			w.Svcs = append(w.Svcs, wm.Svc{NS: "ns1", Name: "s", Sel: map[string]string{"app": "a"}, Ports: []wm.SvcPort{{Name: "p1", Port: 8080}}})
			w.Routes = append(w.Routes, wm.Route{NS: "ns1", Name: "r2", To: []string{"s"}})
		}
		res = append(res, w)
	}
	// Route targets of a kind other than Service (ignored with a warning): as the only target, and next to a Service target
	for _, to := range [][]string{{"Deployment/s"}, {"s", "Deployment/s2"}, {"Deployment/s2", "s"}} {
		w := &wm.World{WLs: []wm.Workload{w1p, w2}}
		w.Svcs = []wm.Svc{{NS: "ns1", Name: "s", Sel: map[string]string{"app": "a"}, Ports: []wm.SvcPort{{Name: "p1", Port: 80}}},
			{NS: "ns1", Name: "s2", Sel: map[string]string{"app": "b"}, Ports: []wm.SvcPort{{Name: "p1", Port: 80}}}}
		w.Routes = []wm.Route{{NS: "ns1", Name: "r", To: to}}
		res = append(res, w)
	}
	return res
}

type point struct {
	src, dst     string
	ip           uint32
	srcIP, dstIP bool
}

func isIP(s string) bool { return len(s) > 0 && s[0] >= '0' && s[0] <= '9' }

func covers(peer, w string, ip uint32, useIP bool) bool {
	if !useIP {
		return peer == w
	}
	if !isIP(peer) {
		return false
	}
	lo, hi, ok := wm.StrictRange(peer)
	return ok && ip >= lo && ip <= hi
}

// Check compares one computed diff with the two list results, point by point.
func Check(A, B *wm.World, la, lb wm.ToolResult, d wm.DiffResult, x *fw.Rec) {
	fail := func(class, known, detail string) { x.Fail(class, known, detail) }
	if d.Err != nil {
		fail("diff fails on inputs that list analyses: "+d.Err.Error(), "", d.Err.Error())
		return
	}
	for _, e := range d.Entries {
		if e.Declared != e.Type {
			fail("entry's DiffType differs from the category list it is in", "", fmt.Sprintf("%s => %s declared %q listed under %q", e.Src, e.Dst, e.Declared, e.Type))
		}
	}
	names := func(w *wm.World) map[string]bool {
		m := map[string]bool{}
		n := w.NormalizeNS()
		for i := range n.WLs {
			m[n.WLs[i].PeerString()] = true
		}
		return m
	}
	na, nb := names(A), names(B)
	allw := map[string]bool{}
	for k := range na {
		allw[k] = true
	}
	for k := range nb {
		allw[k] = true
	}
	cut := map[uint32]bool{0: true}
	addR := func(s string) {
		if isIP(s) {
			if lo, hi, ok := wm.StrictRange(s); ok {
				cut[lo] = true
				if hi != ^uint32(0) {
					cut[hi+1] = true
				}
			} else {
				fail("diff entry with an IP peer that is not a single range", "", s)
			}
		}
	}
	for _, r := range la.IPs {
		cut[r[0]] = true
	}
	for _, r := range lb.IPs {
		cut[r[0]] = true
	}
	for _, e := range d.Entries {
		addR(e.Src)
		addR(e.Dst)
	}
	const none = "No Connections"
	nameOf := func(peer string) string { // ns/name[Kind] -> name
		if i := strings.Index(peer, "/"); i >= 0 {
			peer = peer[i+1:]
		}
		if i := strings.Index(peer, "["); i >= 0 {
			peer = peer[:i]
		}
		return peer
	}
	checkPoint := func(p point, descr string) {
		c1 := la.At(p.src, p.dst, p.ip, p.srcIP, p.dstIP)
		c2 := lb.At(p.src, p.dst, p.ip, p.srcIP, p.dstIP)
		var cov []wm.DiffEntry
		for _, e := range d.Entries {
			if covers(e.Src, p.src, p.ip, p.srcIP) && covers(e.Dst, p.dst, p.ip, p.dstIP) {
				cov = append(cov, e)
			}
		}
		if c1 == none && c2 == none {
			if len(cov) != 0 {
				fail("an entry covers a point that has no connection in either report", "", descr)
			}
			return
		}
		if len(cov) != 1 {
			fail(fmt.Sprintf("point covered by %d entries instead of exactly one", len(cov)), "", descr+fmt.Sprintf(" c1=%s c2=%s entries=%+v", c1, c2, cov))
			return
		}
		e := cov[0]
		want := "changed"
		switch {
		case c1 == c2:
			want = "unchanged"
		case c1 == none:
			want = "added"
		case c2 == none:
			want = "removed"
		}
		if e.Type != want {
			fail("wrong entry type: "+e.Type+" instead of "+want, "", descr+fmt.Sprintf(" c1=%s c2=%s", c1, c2))
		}
		if e.C1 != c1 || e.C2 != c2 {
			fail("entry carries connections that differ from the two reports", "", descr+fmt.Sprintf(" entry(%s | %s) reports(%s | %s)", e.C1, e.C2, c1, c2))
		}
		wantNewSrc, wantNewDst := false, false
		if !p.srcIP && p.src != ingressController {
			wantNewSrc = (want == "added" && !na[p.src]) || (want == "removed" && !nb[p.src])
		}
		if !p.dstIP {
			wantNewDst = (want == "added" && !na[p.dst]) || (want == "removed" && !nb[p.dst])
		}
		if e.SrcNew != wantNewSrc || e.DstNew != wantNewDst {
			// defect model of the recorded finding: a workload literally named "ingress-controller" never gets the flag
			mSrc, mDst := wantNewSrc, wantNewDst
			if !p.srcIP && nameOf(p.src) == "ingress-controller" {
				mSrc = false
			}
			if !p.dstIP && nameOf(p.dst) == "ingress-controller" {
				mDst = false
			}
			known := ""
			if e.SrcNew == mSrc && e.DstNew == mDst {
				known = kfIngressController
			}
			fail("wrong new/lost-workload flags", known, descr+fmt.Sprintf(" type=%s got src/dst=%v/%v want %v/%v", want, e.SrcNew, e.DstNew, wantNewSrc, wantNewDst))
		}
	}
	var ws []string
	for s := range allw {
		ws = append(ws, s)
	}
	sort.Strings(ws)
	var cs []uint32
	for c := range cut {
		cs = append(cs, c)
	}
	sort.Slice(cs, func(i, j int) bool { return cs[i] < cs[j] })
	npts := 0
	// the {ingress-controller} pseudo peer is a source of lines like any other (it is never new or lost itself)
	for _, t := range ws {
		checkPoint(point{src: ingressController, dst: t}, ingressController+" => "+t)
		npts++
	}
	for _, s := range ws {
		for _, t := range ws {
			if s != t {
				checkPoint(point{src: s, dst: t}, s+" => "+t)
				npts++
			}
		}
		for _, c := range cs {
			checkPoint(point{src: s, ip: c, dstIP: true}, fmt.Sprintf("%s => address %d.%d.%d.%d", s, c>>24, c>>16&255, c>>8&255, c&255))
			checkPoint(point{dst: s, ip: c, srcIP: true}, fmt.Sprintf("address %d.%d.%d.%d => %s", c>>24, c>>16&255, c>>8&255, c&255, s))
			npts += 2
		}
	}
	x.Count("points_checked", int64(npts))
}

func outcome(d wm.DiffResult) string {
	var ks []string
	for _, e := range d.Entries {
		ks = append(ks, fmt.Sprintf("%s|%s|%s|%s|%s|%v%v", e.Type, e.Src, e.Dst, e.C1, e.C2, e.SrcNew, e.DstNew))
	}
	sort.Strings(ks)
	return strings.Join(ks, ";")
}

func Run(r *fw.Run) {
	r.Rule = "all ordered pairs (A,B), A=B included, of a family of worlds (5 topologies incl. kind change and a workload named ingress-controller x ipBlock sets inducing different partitions x port sets x direction, + admin-policy worlds) go through the real ConnDiffFromResourceInfos; every point of the common refinement (workload pairs; workload x address cell x direction) is checked against the two list reports; non-trivial = the diff has an added, removed or changed entry; distinct = distinct diffs"
	r.Assume = []string{"list itself is decided by C01/C02/C05; the IP refinement uses the range starts of both lists and of every diff entry"}
	if r.Quick() {
		r.SetBudget(300 * time.Second)
	} else {
		r.SetBudget(30 * time.Minute)
	}
	fam := Family(r.Quick())
	r.Bounds["family_size"] = len(fam)
	lists := make([]wm.ToolResult, len(fam))
	var once sync.Map
	list := func(i int) wm.ToolResult {
		if _, ok := once.Load(i); !ok {
			lists[i], _ = wm.RunList(fam[i].Infos(), false)
			once.Store(i, true)
		}
		return lists[i]
	}
	for i := range fam {
		if t := list(i); t.Err != nil {
			r.HarnessError("family world %d does not list: %v", i, t.Err)
			return
		}
	}
	fw.Explore(r, "ordered-pairs", fw.Full, func(c *fw.Ctx) [2]int {
		return [2]int{c.Choose(len(fam), "world A"), c.Choose(len(fam), "world B")}
	}, func(p [2]int, x *fw.Rec) {
		A, B := fam[p[0]], fam[p[1]]
		d, _ := wm.RunDiff(A.Infos(), B.Infos())
		x.Describe(func() any {
			return map[string]any{"A": A.Brief(), "B": B.Brief(), "A_manifests": A.YAMLDocs(), "B_manifests": B.YAMLDocs()}
		})
		Check(A, B, list(p[0]), list(p[1]), d, x)
		oc := outcome(d)
		x.Outcome(oc)
		for _, e := range d.Entries {
			if e.Type != "unchanged" {
				x.Nontrivial(oc)
				x.Sample(map[string]any{"A": A.Brief(), "B": B.Brief(), "diff": first(strings.Split(oc, ";"), 5)})
				break
			}
		}
	})
}

func first(s []string, k int) []string {
	if len(s) > k {
		return s[:k]
	}
	return s
}
