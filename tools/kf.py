#!/usr/bin/env python3
"""kf.py fixed <id> <property> <commit> <what>   |   kf.py known <id> <property> <what> [match-json]"""
import json, sys
p = '/verif/known_findings.json'
k = json.load(open(p))
k['findings'] = [f for f in k['findings'] if f['id'] != sys.argv[2]]
if sys.argv[1] == 'fixed':
    _, _, fid, prop, commit, what = sys.argv
    k['findings'].append({"id": fid, "property": prop, "status": "fixed", "commit": commit, "what": "fixed: property=%s %s %s" % (prop, commit, what)})
else:
    fid, prop, what = sys.argv[2:5]
    e = {"id": fid, "property": prop, "status": "known", "what": what}
    if len(sys.argv) > 5: e["match"] = json.loads(sys.argv[5])
    k['findings'].append(e)
json.dump(k, open(p, 'w'), indent=1)
