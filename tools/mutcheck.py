#!/usr/bin/env python3
"""Detection demonstration: builds each candidate edit of /repo as an overlay (the repo is not touched)
and runs the quick check of its property against it.  usage: mutcheck.py [-j N] [--tier quick] [ids or Cxx ...]"""
import sys, os, json, subprocess, tempfile, shutil, re
from concurrent.futures import ThreadPoolExecutor
ROOT = os.path.dirname(os.path.dirname(os.path.abspath(__file__)))
sys.path.insert(0, os.path.join(ROOT, "tools"))
from mutants import M
args = sys.argv[1:]
jobs, tier = 2, "quick"
while args and args[0].startswith("-"):
    if args[0] == "-j": jobs = int(args[1]); args = args[2:]
    elif args[0] == "--tier": tier = args[1]; args = args[2:]
    else: break
sel = [m for m in M if not args or m[0] in args or m[1] in args]
avail = set(c["property_id"] for c in json.load(open(os.path.join(ROOT, "MANIFEST.json")))["checks"])
def run(m):
    mid, prop, f, old, new, surv = m
    props = [prop]
    work = tempfile.mkdtemp(prefix="mut_" + mid + "_", dir="/dev/shm")
    try:
        src = open("/repo/" + f).read()
        if src.count(old) != 1:
            return mid, prop, surv, "BAD-PATTERN(%d)" % src.count(old)
        mf = os.path.join(work, os.path.basename(f))
        open(mf, "w").write(src.replace(old, new))
        ov = os.path.join(work, "ov.json")
        json.dump({"Replace": {"/repo/" + f: mf}}, open(ov, "w"))
        res = []
        for p in props:
            if not os.path.isdir(os.path.join(ROOT, "checks", p.lower())):
                res.append(p + ":no-check"); continue
            env = dict(os.environ, VERIF_EXTRA_OVERLAY=ov, VERIF_BUILD_TAG="." + mid, VERIF_OUTDIR=work)
            r = subprocess.run([os.path.join(ROOT, "run.sh"), p, tier], env=env, capture_output=True, text=True)
            v = [l for l in r.stdout.splitlines() if l.startswith("VIOLATION")]
            cls = [l.strip() for l in r.stdout.splitlines() if l.strip().startswith("class:")]
            res.append("%s:exit=%d violations=%d %s" % (p, r.returncode, len(v), (cls[0][:140] if cls else (r.stderr[-200:] if r.returncode == 2 else ""))))
            for t in (".", ):
                for fn in os.listdir(os.path.join(ROOT, "build")):
                    if fn.endswith("." + mid) or fn.endswith("." + mid + ".json") or fn.endswith("." + mid + ".log"):
                        fp = os.path.join(ROOT, "build", fn)
                        shutil.rmtree(fp, ignore_errors=True) if os.path.isdir(fp) else os.remove(fp)
        return mid, prop, surv, " ; ".join(res)
    finally:
        shutil.rmtree(work, ignore_errors=True)
with ThreadPoolExecutor(jobs) as ex:
    for mid, prop, surv, out in ex.map(run, sel):
        print(mid, prop, "suite-surviving" if surv else "suite-killed", "::", out, flush=True)
