#!/bin/bash
# runs every registered check (tier = $1, default quick) on /repo and validates MANIFEST and evidence against the schemas
cd "$(dirname "$0")/.." || exit 2
tier="${1:-quick}"
./run.sh setup >/dev/null || exit 2
rc=0
for id in $(python3 -c "import json;print(' '.join(c['property_id'] for c in json.load(open('MANIFEST.json'))['checks']))"); do
  s=$(date +%s)
  out=$(./run.sh "$id" "$tier" 2>/dev/null); code=$?
  e=$(( $(date +%s) - s ))
  echo "$id exit=$code ${e}s :: $(echo "$out" | grep -c '^VIOLATION') violations, $(echo "$out" | grep -c '^KNOWN-FINDING') known findings :: $(echo "$out" | tail -1 | cut -c1-160)"
  [ $code -ne 0 ] && rc=1
done
python3-vt - <<'PY' || rc=1
import json, jsonschema, glob, sys
jsonschema.validate(json.load(open('MANIFEST.json')), json.load(open('/root/.vp/MANIFEST.schema.json')))
sch = json.load(open('/root/.vp/EVIDENCE.schema.json'))
bad = 0
for c in json.load(open('MANIFEST.json'))['checks']:
    try:
        e = json.load(open(c['evidence_file'])); jsonschema.validate(e, sch)
        assert e['level'] == c['level_claimed']['category'], (e['level'], c['level_claimed']['category'])
    except Exception as ex:
        bad += 1; print('EVIDENCE PROBLEM', c['property_id'], str(ex)[:200])
print('schemas ok' if not bad else 'schema problems: %d' % bad)
sys.exit(1 if bad else 0)
PY
exit $rc
