#!/usr/bin/env python3
"""seedverify.py <Cxx> <a|b> [srcdir]: confirm a sub-agent's seeded change on a scratch worktree of /repo HEAD
(applies, builds, suite shows only the baseline failures, demo fails with it and passes without it), then keep it
under /verif/seeded/<Cxx>-<x>/ (patch.diff regenerated against HEAD, demo, meta.json). Removes the worktree."""
import sys, os, re, subprocess, json, shutil, glob
pid, x = sys.argv[1], sys.argv[2]
src = sys.argv[3] if len(sys.argv) > 3 else f"/tmp/wt/{pid}/SEED/{x}"
ENV = dict(os.environ, GOFLAGS='-mod=mod', GOPROXY='off', GOSUMDB='off', GOTOOLCHAIN='local')
BASE = ['TestConnListFromDir', 'TestConnListFromDir/ipblockstest_4', 'TestConnListFromResourceInfos', 'TestConnListFromResourceInfos/ipblockstest_4']
PKG = {'connlist': 'pkg/netpol/connlist', 'diff': 'pkg/netpol/diff', 'common': 'pkg/netpol/internal/common', 'cli': 'pkg/cli', 'eval': 'pkg/netpol/eval',
       'k8s': 'pkg/netpol/eval/internal/k8s', 'ingressanalyzer': 'pkg/netpol/connlist/internal/ingressanalyzer', 'parser': 'pkg/manifests/parser', 'fsscanner': 'pkg/manifests/fsscanner',
       'connlist_test': 'pkg/netpol/connlist', 'diff_test': 'pkg/netpol/diff', 'eval_test': 'pkg/netpol/eval', 'cli_test': 'pkg/cli', 'main': 'cmd/netpolicy'}
def sh(cmd, cwd, **kw):
    return subprocess.run(cmd, shell=True, cwd=cwd, env=ENV, capture_output=True, text=True, **kw)
wt = f"/tmp/sv/{pid}_{x}"
sh(f"git -C /repo worktree remove --force {wt}", "/")
os.makedirs("/tmp/sv", exist_ok=True)
r = sh(f"git -C /repo worktree add --detach {wt} HEAD", "/"); assert r.returncode == 0, r.stderr
log = {"property": pid, "variant": x, "repo_head": sh("git rev-parse --short HEAD", "/repo").stdout.strip()}
try:
    patch = os.path.join(src, "patch.diff")
    r = sh(f"git apply {patch}", wt)
    if r.returncode != 0:
        r = sh(f"git apply -3 {patch}", wt)
        log["applied_with_3way"] = True
        assert r.returncode == 0, "patch does not apply: " + r.stderr
    newpatch = sh("git diff HEAD", wt).stdout
    files = sh("git diff HEAD --name-only", wt).stdout.split()
    log["files"] = files
    r = sh("go build ./...", wt); assert r.returncode == 0, "build: " + r.stderr[-500:]
    t = sh("go test -vet=off -count=1 ./... 2>&1", wt)
    fails = sorted(set(re.findall(r'--- FAIL: (\S+)', t.stdout)))
    log["suite_failures_with_change"] = fails
    log["suite_ok"] = fails == BASE
    try: os.remove(os.path.join(wt, "test_outputs/connlist/actual_ipblockstest_4_connlist_output.txt"))
    except OSError: pass
    demos = [f for f in glob.glob(os.path.join(src, "**", "*"), recursive=True) if re.search(r'_test\.go(\.txt)?$', f)]
    assert demos, "no demo test found"
    demo = demos[0]
    code = open(demo).read()
    pkg = re.search(r'^package (\w+)', code, re.M).group(1)
    pdir = PKG[pkg]
    tags = ""
    m = re.search(r'^//go:build (\w+)', code, re.M)
    if m: tags = "-tags " + m.group(1)
    tests = re.findall(r'^func (Test\w+)\(', code, re.M)
    dst = os.path.join(wt, pdir, "zz_seed_demo_test.go")
    shutil.copy(demo, dst)
    # helper test files delivered next to the demo (same package) go along
    for k, extra in enumerate(demos[1:]):
        ecode = open(extra).read()
        if re.search(r'^package (\w+)', ecode, re.M).group(1) == pkg:
            shutil.copy(extra, os.path.join(wt, pdir, f"zz_seed_demo_extra{k}_test.go"))
            tests += re.findall(r'^func (Test\w+)\(', ecode, re.M)
    cmd = f"go test {tags} -vet=off -count=1 -run '^({'|'.join(tests)})$' ./{pdir}/ 2>&1"
    log["demo_cmd"] = cmd; log["demo_file"] = os.path.basename(demo); log["demo_dir"] = pdir
    w = sh(cmd, wt)
    log["demo_with_change"] = "FAIL" if w.returncode != 0 else "PASS"
    log["demo_with_change_tail"] = w.stdout[-600:]
    r = sh(f"git apply -R -", wt, input=newpatch); assert r.returncode == 0, r.stderr
    wo = sh(cmd, wt)
    log["demo_without_change"] = "FAIL" if wo.returncode != 0 else "PASS"
    if wo.returncode != 0: log["demo_without_change_tail"] = wo.stdout[-600:]
    ok = log["suite_ok"] and log["demo_with_change"] == "FAIL" and log["demo_without_change"] == "PASS"
    log["confirmed"] = ok
    if ok:
        out = f"/verif/seeded/{pid}-{x}"
        os.makedirs(out, exist_ok=True)
        open(os.path.join(out, "patch.diff"), "w").write(newpatch)
        for d in demos:
            shutil.copy(d, os.path.join(out, os.path.basename(d) + ("" if d.endswith(".txt") else ".txt")))
        rd = os.path.join(src, "README.md")
        if os.path.exists(rd): shutil.copy(rd, os.path.join(out, "AGENT_README.md"))
        meta = {"property": pid, "what_it_needs_to_manifest": "see AGENT_README.md (trigger section)", "verification": log}
        old = os.path.join(out, "meta.json")
        if os.path.exists(old):
            o = json.load(open(old)); meta["detection"] = o.get("detection", {}); meta["what_it_needs_to_manifest"] = o.get("what_it_needs_to_manifest", meta["what_it_needs_to_manifest"])
        json.dump(meta, open(old, "w"), indent=1)
    print(json.dumps({k: log[k] for k in ("property", "variant", "suite_ok", "demo_with_change", "demo_without_change", "confirmed", "files")}))
except AssertionError as e:
    print("REJECTED", pid, x, str(e)[:400])
finally:
    sh(f"git -C /repo worktree remove --force {wt}", "/")
