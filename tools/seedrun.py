#!/usr/bin/env python3
"""seedrun.py [-j N] [--tier quick] [--checks C01,C05] <seed dirs or ids ...>: run checks against kept seeded changes
(patch applied to a scratch copy of the touched files, injected with the build overlay; /repo is not touched).
Records the result under meta.json["detection"]."""
import sys, os, json, subprocess, tempfile, shutil, re
from concurrent.futures import ThreadPoolExecutor
ROOT = "/verif"
args = sys.argv[1:]; jobs, tier, checks = 2, "quick", None
while args and args[0].startswith("-"):
    if args[0] == "-j": jobs = int(args[1]); args = args[2:]
    elif args[0] == "--tier": tier = args[1]; args = args[2:]
    elif args[0] == "--checks": checks = args[1].split(","); args = args[2:]
seeds = args or sorted(os.listdir(os.path.join(ROOT, "seeded")))
def run(seed):
    sd = os.path.join(ROOT, "seeded", os.path.basename(seed.rstrip("/")))
    meta = json.load(open(os.path.join(sd, "meta.json")))
    props = checks or [meta["property"]] + meta.get("also_check", [])
    work = tempfile.mkdtemp(prefix="seed_", dir="/dev/shm")
    res = {}
    try:
        # patched copies of the touched files
        wt = os.path.join(work, "wt")
        subprocess.run(f"git -C /repo worktree add --detach {wt} HEAD", shell=True, capture_output=True, check=True)
        try:
            r = subprocess.run(f"git apply {sd}/patch.diff", shell=True, cwd=wt, capture_output=True, text=True)
            if r.returncode != 0:
                return seed, {"error": "patch does not apply to /repo HEAD: " + r.stderr[:200]}
            files = subprocess.run("git status --porcelain", shell=True, cwd=wt, capture_output=True, text=True).stdout.splitlines()
            rep = {}
            for l in files:
                f = l[3:].strip()
                if l.startswith(" D") or l.startswith("D"):
                    return seed, {"error": "patch deletes a file (not supported by the overlay route)"}
                dst = os.path.join(work, "files", f); os.makedirs(os.path.dirname(dst), exist_ok=True)
                shutil.copy(os.path.join(wt, f), dst); rep["/repo/" + f] = dst
        finally:
            subprocess.run(f"git -C /repo worktree remove --force {wt}", shell=True, capture_output=True)
        ov = os.path.join(work, "ov.json"); json.dump({"Replace": rep}, open(ov, "w"))
        tag = "." + os.path.basename(sd)
        for p in props:
            if not os.path.isdir(os.path.join(ROOT, "checks", p.lower())):
                res[p] = "no-check"; continue
            env = dict(os.environ, VERIF_EXTRA_OVERLAY=ov, VERIF_BUILD_TAG=tag, VERIF_OUTDIR=work)
            r = subprocess.run([os.path.join(ROOT, "run.sh"), p, tier], env=env, capture_output=True, text=True)
            v = [l for l in r.stdout.splitlines() if l.startswith("VIOLATION")]
            cls = [l.strip() for l in r.stdout.splitlines() if l.strip().startswith("class:")]
            res[p] = {"tier": tier, "exit": r.returncode, "violations": len(v), "first_class": cls[0][7:200] if cls else "", "detected": r.returncode == 1 and len(v) > 0}
            if r.returncode == 2: res[p]["stderr"] = r.stderr[-300:]
        for fn in os.listdir(os.path.join(ROOT, "build")):
            if fn.endswith(tag) or fn.endswith(tag + ".json") or fn.endswith(tag + ".log"):
                fp = os.path.join(ROOT, "build", fn)
                shutil.rmtree(fp, ignore_errors=True) if os.path.isdir(fp) else os.remove(fp)
        meta.setdefault("detection", {}).update(res)
        json.dump(meta, open(os.path.join(sd, "meta.json"), "w"), indent=1)
        return seed, res
    finally:
        shutil.rmtree(work, ignore_errors=True)
with ThreadPoolExecutor(jobs) as ex:
    for seed, res in ex.map(run, seeds):
        print(os.path.basename(seed.rstrip("/")), json.dumps(res), flush=True)
