// maprewrite turns every `range` over a map in the repository's pkg/ and cmd/ packages into a
// scheduler choice point: it writes rewritten copies of the files (line numbers preserved) and an
// overlay that injects them together with the zzmapsched runtime package.
//
//	maprewrite <repo> <outdir> <base-overlay.json> <result-overlay.json> <sched-src>
//
// The base overlay (hook files, and a mutant under test if any) is honoured when loading the
// packages and is merged into the result.
package main

import (
	"encoding/json"
	"fmt"
	"go/ast"
	"go/token"
	"go/types"
	"os"
	"path/filepath"
	"sort"
	"strings"

	"golang.org/x/tools/go/packages"
)

type edit struct {
	start, end int
	text       string
}

func main() {
	repo, outDir, baseOv, resOv, schedSrc := os.Args[1], os.Args[2], os.Args[3], os.Args[4], os.Args[5]
	os.MkdirAll(outDir, 0o755)
	base := map[string]string{}
	if b, err := os.ReadFile(baseOv); err == nil {
		var o struct{ Replace map[string]string }
		if err := json.Unmarshal(b, &o); err != nil {
			fmt.Fprintln(os.Stderr, "maprewrite: bad base overlay:", err)
			os.Exit(2)
		}
		base = o.Replace
	}
	ovContent := map[string][]byte{}
	for dst, src := range base {
		b, err := os.ReadFile(src)
		if err != nil {
			fmt.Fprintln(os.Stderr, "maprewrite:", err)
			os.Exit(2)
		}
		ovContent[dst] = b
	}
	cfg := &packages.Config{Mode: packages.NeedName | packages.NeedFiles | packages.NeedSyntax | packages.NeedTypes | packages.NeedTypesInfo | packages.NeedImports | packages.NeedDeps,
		Dir: repo, Env: append(os.Environ(), "GOFLAGS=-mod=mod", "GOPROXY=off", "GOSUMDB=off"), Overlay: ovContent, BuildFlags: []string{"-tags=verif"}}
	pkgs, err := packages.Load(cfg, "./pkg/...", "./cmd/...")
	if err != nil {
		fmt.Fprintln(os.Stderr, "maprewrite: load:", err)
		os.Exit(2)
	}
	if packages.PrintErrors(pkgs) > 0 {
		os.Exit(2)
	}
	overlay := map[string]string{}
	for k, v := range base {
		overlay[k] = v
	}
	var sites []string
	nsites := 0
	for _, p := range pkgs {
		for _, f := range p.Syntax {
			fname := p.Fset.Position(f.Pos()).Filename
			if strings.Contains(fname, "zzverif") || strings.Contains(fname, "zz_verif") || strings.HasSuffix(fname, "_test.go") {
				continue
			}
			src, ok := ovContent[fname]
			if !ok {
				src, _ = os.ReadFile(fname)
			}
			var edits []edit
			ast.Inspect(f, func(nd ast.Node) bool {
				rs, ok := nd.(*ast.RangeStmt)
				if !ok {
					return true
				}
				t := p.TypesInfo.TypeOf(rs.X)
				if t == nil {
					return true
				}
				if _, ok := t.Underlying().(*types.Map); !ok {
					return true
				}
				nsites++
				off := func(pos token.Pos) int { return p.Fset.Position(pos).Offset }
				xsrc := string(src[off(rs.X.Pos()):off(rs.X.End())])
				pos := p.Fset.Position(rs.Pos())
				site := fmt.Sprintf("%s:%d", strings.TrimPrefix(pos.Filename, repo+"/"), pos.Line)
				sites = append(sites, site)
				kv := fmt.Sprintf("kv__%d", nsites)
				hdr := fmt.Sprintf("for _, %s := range zzmapsched.Pairs(%s, %q) { if !%s.Live() { continue }; ", kv, xsrc, site, kv)
				name := func(e ast.Expr) string {
					if e == nil {
						return "_"
					}
					return string(src[off(e.Pos()):off(e.End())])
				}
				k, v := name(rs.Key), name(rs.Value)
				tok := rs.Tok.String()
				if rs.Key != nil || rs.Value != nil {
					switch {
					case k != "_" && v != "_":
						hdr += fmt.Sprintf("%s, %s %s %s.K, %s.Cur(); ", k, v, tok, kv, kv)
					case k != "_":
						hdr += fmt.Sprintf("%s %s %s.K; ", k, tok, kv)
					case v != "_":
						hdr += fmt.Sprintf("%s %s %s.Cur(); ", v, tok, kv)
					}
				}
				edits = append(edits, edit{off(rs.For), off(rs.Body.Lbrace) + 1, hdr})
				return true
			})
			if len(edits) == 0 {
				continue
			}
			pkgEnd := p.Fset.Position(f.Name.End()).Offset
			edits = append(edits, edit{pkgEnd, pkgEnd, `; import zzmapsched "github.com/np-guard/netpol-analyzer/pkg/zzmapsched"`})
			sort.Slice(edits, func(i, j int) bool { return edits[i].start > edits[j].start })
			out := string(src)
			for _, e := range edits {
				out = out[:e.start] + e.text + out[e.end:]
			}
			dst := filepath.Join(outDir, strings.ReplaceAll(strings.TrimPrefix(fname, repo+"/"), "/", "__"))
			if err := os.WriteFile(dst, []byte(out), 0o644); err != nil {
				fmt.Fprintln(os.Stderr, "maprewrite:", err)
				os.Exit(2)
			}
			overlay[fname] = dst
		}
	}
	overlay[filepath.Join(repo, "pkg/zzmapsched/sched.go")] = schedSrc
	b, _ := json.MarshalIndent(map[string]interface{}{"Replace": overlay}, "", " ")
	if err := os.WriteFile(resOv, b, 0o644); err != nil {
		fmt.Fprintln(os.Stderr, "maprewrite:", err)
		os.Exit(2)
	}
	sort.Strings(sites)
	sb, _ := json.Marshal(sites)
	os.WriteFile(filepath.Join(outDir, "sites.json"), sb, 0o644)
	fmt.Printf("maprewrite: %d map-range sites instrumented\n", nsites)
}
