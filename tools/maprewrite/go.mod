module maprewrite

go 1.22.0

require golang.org/x/tools v0.29.0

require (
	golang.org/x/mod v0.22.0 // indirect
	golang.org/x/sync v0.10.0 // indirect
)
