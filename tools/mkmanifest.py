#!/usr/bin/env python3
"""Regenerates MANIFEST.json from the table below (kept here so that the manifest stays valid and uniform)."""
import json, os, sys
ROOT = os.path.dirname(os.path.dirname(os.path.abspath(__file__)))
BASE = json.load(open("/root/.vp/BASELINE.json"))["cmd"] if os.path.exists("/root/.vp/BASELINE.json") else "cd /repo && go test ./..."

EXPL = "exploration"
MC = "model_checking"
# id -> (level, technique, text, note, design_ref)
CHECKS = {
 "C01": (EXPL, "bounded-exhaustive choice-tree enumeration of NetworkPolicy worlds on the real analyzer; exact port/IP-cell comparison with an independent pointwise reference model",
         "Every leaf of the choice trees S-ports, S-sel-ip, S-multi, S-rules (thorough: + S-inter and all <=2-deviation variants of rich seeds) is executed on the real ConnlistFromResourceInfos and compared, for every workload pair and every cell of the exact port and IPv4 partitions, with a pointwise reference of the Kubernetes semantics. Exhaustive within the stated small-scope alphabets, not a sample.",
         "Small-scope bound (<=3 workloads, <=2 policies, alphabets of DESIGN §2.3). The reference model is the trusted base; C14 cross-checks it with oracle-free relations.", "§3 C01"),
}
NOT_YET = "check not built yet in this revision of /verif (planned in DESIGN.md §3)"

props = [json.loads(l)["id"] for l in open(os.path.join(ROOT, "properties.jsonl"))]
checks, na = [], []
for pid in props:
    if pid in CHECKS:
        level, tech, text, note, ref = CHECKS[pid]
        checks.append({
            "property_id": pid,
            "quick_cmd": f"./run.sh {pid} quick",
            "thorough_cmd": f"./run.sh {pid} thorough",
            "evidence_file": f"evidence/{pid}.json",
            "replay_cmd_template": "./run.sh replay {path}",
            "engine": "vcheck",
            "level_claimed": {"category": level, "text": text, "design_ref": ref},
            "level_note": note,
            "technique": tech,
        })
    else:
        na.append({"property_id": pid, "reason": NOT_YET})
man = {
 "version": 1,
 "setup_cmd": "./run.sh setup",
 "hooks": {
   "guard": "verif",
   "enable": "go build -tags verif -overlay /verif/build/overlay.json (hook files live in /verif/overlay and are injected into the repo tree by the overlay; /repo itself carries no hook code)",
   "baseline_off_cmd": BASE,
   "source_commits": [],
   "add_only": True,
 },
 "engines": [
   {"name": "vcheck", "path": "cmd/vcheck", "serves_properties": sorted(CHECKS),
    "kind_free_text": "hand-written explorer: choice-tree enumeration (full / deviation-bounded) and explicit-state BFS over the real implementation, oracle = independent reference models / relational invariants"},
 ],
 "checks": checks,
 "not_applicable": na,
 "notes": "All checks rebuild from /repo's working tree through run.sh (go build -tags verif -overlay). Known findings: known_findings.json.",
}
json.dump(man, open(os.path.join(ROOT, "MANIFEST.json"), "w"), indent=1)
print("checks:", len(checks), "not claimed:", len(na))
