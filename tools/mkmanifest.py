#!/usr/bin/env python3
"""Regenerates MANIFEST.json from the table below (kept here so that the manifest stays valid and uniform)."""
import json, os, sys
ROOT = os.path.dirname(os.path.dirname(os.path.abspath(__file__)))
BASE = json.load(open("/root/.vp/BASELINE.json"))["cmd"] if os.path.exists("/root/.vp/BASELINE.json") else "cd /repo && go test ./..."

EXPL = "exploration"
MC = "model_checking"
# id -> (level, technique, text, note, design_ref)
CHECKS = {
 "C01": (EXPL, "bounded-exhaustive choice-tree enumeration of NetworkPolicy worlds on the real analyzer; exact port/IP-cell comparison with an independent pointwise reference model",
         "Every leaf of the choice trees S-ports, S-sel-ip, S-multi, S-rules (thorough: + S-inter and all <=2-deviation variants of rich seeds) is executed on the real ConnlistFromResourceInfos and compared, for every workload pair and every cell of the exact port and IPv4 partitions, with a pointwise reference of the Kubernetes semantics. Exhaustive within the stated small-scope alphabets, not a sample.",
         "Small-scope bound (<=3 workloads, <=2 policies, alphabets of DESIGN §2.3). The reference model is the trusted base; C14 cross-checks it with oracle-free relations.", "§3 C01"),
 "C02": (EXPL, "bounded-exhaustive enumeration of ANP/NetworkPolicy/BANP stacks incl. every document order of each stack; exact cell comparison with a pointwise reference of the precedence sentence",
         "All leaves of S-single, S-stack (all 3! document orders), S-dir, S-many (5..21 ANPs in 8 document orders), S-multipeer (rules with two or three peers, in ANPs and the BANP) and S-pieces (a full set assembled from per-protocol pieces of several policies) are run through the real list and compared exactly with the reference; thorough adds all <=2-deviation variants of two rich seeds.",
         "Small-scope bound (<=3 ANPs except S-many, priorities from a fixed set); reference model trusted.", "§3 C02"),
 "C03": (EXPL, "bounded-exhaustive enumeration of pod worlds; every eval verdict on the exact port/IP cell partition compared with the list relation of the same documents and with the reference",
         "The engine is populated exactly as `k8snetpolicy eval` does (InsertObject in document order); every ordered pod pair, every IP cell in both directions, 3 protocols x all port-cell boundary points are queried and compared with list; a designated scope sweeps all 3x65535 points in thorough tier; the built CLI binary is spawned on a sub-scope.",
         "eval cell queries assume piecewise constancy between the constants of the input (removed by the thorough sweep on one scope).", "§3 C03"),
 "C04": (EXPL, "all ordered pairs of a family of worlds through the real diff; pointwise oracle on the common refinement of IP ranges",
         "For every ordered pair (A,B) of the family the diff entries are checked point by point against the two list reports (exactly-one covering entry, type, both connection values, new/lost flags), plus diff(A,A) and swap symmetry.",
         "Family of worlds is bounded (topologies x ipBlock partitions x ports); list itself is checked by C01/C05.", "§3 C04"),
 "C05": (EXPL, "invariant checked on every result of bounded-exhaustive world scopes (own scopes force full-set spellings and extremal ipBlocks)",
         "wm.WellFormed is evaluated on every list result of S-full, S-full-anp, S-ipx, S-ipmany, S-duplicated-workload, S-owner-pods-with-different-ports, S-focus-on-shared-names (focused reports) and of the C01/C02 world scopes (NetworkPolicy worlds with and without exposure); the same invariant is asserted inside the other list-based checks on every result they produce.",
         "Invariant read off the API objects; alphabets bounded as in DESIGN §2.3.", "§3 C05"),
 "C06": (EXPL, "bounded-exhaustive worlds x exhaustive enumeration of the finite quotient of hypothetical pods (labels x namespaces x named-port declarations)",
         "For every world of the exposure scopes: base relation with/without the flag compared exactly; protected flags compared with the reference; every reported exposure entry is checked for realizability against every class of hypothetical pods satisfying its selectors (exact quotient argument in DESIGN §3 C06).",
         "Quotient argument: selectors observe a pod only through the vocabulary of the world plus one fresh value per key.", "§3 C06"),
 "C07": (EXPL, "same worlds and hypothetical-pod quotient as C06; completeness direction",
         "For every protected workload/direction and every class of hypothetical pods, every connection the reference allows must be covered by the entire-cluster exposure or by a reported entry the pod satisfies, minus the documented omission.",
         "Same quotient argument as C06; the documented omission is modelled from the statement.", "§3 C07"),
 "C08": (MC, "map-iteration order turned into scheduler choice points by a source-to-source overlay; deviation-bounded schedule exploration (CHESS-style) + exhaustive document permutation/partition enumeration; byte comparison of every output",
         "Every `range` over a map in pkg/ is rewritten (overlay) into a scheduler choice; all schedules with <=1 deviating range execution (thorough: <=2 on small inputs) are executed for each world/format and compared byte-for-byte with the canonical schedule; separately all document permutations / file splits / unordered-list permutations of small worlds are compared in the plain build.",
         "Maps iterated inside dependencies are not controlled (backed by free-running repeats).", "§3 C08"),
 "C09": (EXPL, "bounded-exhaustive result shapes x all formats; independent parsers turn each output back into a relation",
         "Every output of every format is parsed back by independent parsers and must equal the relation built from the API objects (and therefore every other format); the same for exposure sections and for the diff formats.",
         "Parsers are the trusted base; dot exposure naming normalised as documented.", "§3 C09"),
 "C10": (EXPL, "full product of Service/Ingress/Route/workload/policy shapes against an independent reference of the routing + policy rule",
         "Every world of the product is analysed by the real list; presence and connection of each {ingress-controller} line and the blocked-backend warnings are compared with the reference (the source is an unlabeled pod of a namespace without labels: admin policies whose subject covers it cut its egress).",
         "Route designation rule left open by the statement: Route scopes only contain services where all readings agree.", "§3 C10"),
 "C11": (MC, "explicit-state breadth-first search over the real ConnectionSet methods with representation-level state hashing; abstract bitset model as oracle on every transition",
         "States are real ConnectionSet values reached by generator steps and Union/Intersection/Subtract with every previously reached state as operand; after every transition denotation, non-modification, non-aliasing, canonical form and all predicates are compared with a bitset model over protocol x port cells.",
         "Port cells from the alphabet's constants; named ports are opaque points: a name is a member of a set that holds the name or all port numbers of its protocol (the statement's containment clause), checked through Union, Intersection, Subtract, containment and equality; AddConnection steps start from the empty set, the AllowAll form and a full protocol.", "§3 C11"),
 "C12": (EXPL, "exhaustive single (thorough: double) structural mutation of every node of a seed corpus; every mutant through list, list+exposure, diff both ways and eval in crash-isolated workers",
         "Every drop/null/empty/retype/value mutation of every node of one valid manifest per kind is analysed, plus valid documents with unsupported API fields (unmutated and mutated) and strided valid worlds of the exposure / ANP / ingress alphabets through every command and format; any panic, worker death or watchdog expiry is a violation.",
         "Mutation alphabet and seed corpus are bounded; byte-level mutations only in thorough tier.", "§3 C12"),
 "C13": (EXPL, "valid worlds x all subsets (<=2) of a junk alphabet x all placements x stopOnError x command, on real files",
         "Relation equality with the junk-free run, severe entries for every unreadable/malformed document, stop-on-error and fatal clauses checked for every combination.",
         "Junk alphabet bounded (19 elements).", "§3 C13"),
 "C14": (EXPL, "bounded-exhaustive worlds x every applicable single-step edit; oracle-free pointwise relations between the two runs",
         "For every world and every edit of the listed kinds the two list results (plain, and base connectivity of list --exposure) are compared on the common refinement (subset / superset / equality / locality).",
         "Backstop against a misreading shared by the reference and the tool; classification of edits uses only selector matching.", "§3 C14"),
 "C15": (MC, "explicit-state BFS over operation histories of the real PolicyEngine with canonical private-state hashing (overlay dump); invariant = agreement with a fresh engine and the reference in every state",
         "From the empty engine and pre-populated seeds, every operation of the alphabet (inserts, updates, deletes incl. absent objects and equal copies, queries) is applied in every reached state; a state is the pair (full private-state dump of the engine, model of the current objects); in every state every query must equal a fresh engine on the current objects and the reference; an operation the engine refuses because of its history (an absent object refused although a fresh engine accepts it, a failing DeleteObject) is a violation of the transition itself. The last seed is searched over a second, smaller alphabet (owner-less pods, two policies of one namespace) to depth 8.",
         "Merging is sound because the dump is the whole state the methods read (LRU recency excluded, capacity never reached) and the model is the whole input of the oracle; keying by the dump alone would hide operations that silently do nothing.", "§3 C15"),
 "C16": (EXPL, "worlds with name collisions x every focus string x formats; filter oracle on the unfocused relation",
         "Focused API relation must equal the filtered unfocused relation for every focus string (names, ns/names, absent names, ingress-controller) and the formatted outputs must parse to the same; with exposure the exposure sections must equal the filtered unfocused sections format by format. Scope focus/analyzer-reuse: one analyzer object used for two inputs in a row must answer the second like a fresh analyzer.",
         "Uses the C09 parsers.", "§3 C16"),
 "C17": (EXPL, "base worlds x every re-expression of each workload (kind x replicas x bare pods with owner); relation equality modulo [Kind]",
         "Every re-expression (x 4 document orders) is analysed and compared with the base relation and, without admin policies, with the base list --exposure report; one peer per workload; no self entry; name-collision worlds.",
         "Kinds and replica counts bounded as listed.", "§3 C17"),
 "C18": (EXPL, "directories x full product of valid flag combinations on the freshly built CLI binary vs library calls",
         "stdout bytes vs library string, -f file vs stdout, exit status vs library error, resource-info API vs directory API.",
         "~25 ms per spawn bounds the product.", "§3 C18"),
 "C19": (MC, "exhaustive enumeration of input orders: all permutations for n<=7(8), all position pairs over base orders for n up to 51 (both sides of pdqsort's thresholds); each conflict kind at every position",
         "The 'states' are input orders; the transition relation is the sort's comparison sequence; every enumerated order containing a conflict must be rejected with an error naming it, through list and diff, whatever surrounds it (workloads, no workload at all, Services of other namespaces first / last).",
         "Base-order families for large n are bounded.", "§3 C19"),
}
NOT_YET = "check not built yet in this revision of /verif (planned in DESIGN.md §3)"

props = [json.loads(l)["id"] for l in open(os.path.join(ROOT, "properties.jsonl"))]
checks, na = [], []
for pid in props:
    if pid in CHECKS and os.path.isdir(os.path.join(ROOT, "checks", pid.lower())):
        level, tech, text, note, ref = CHECKS[pid]
        checks.append({
            "property_id": pid,
            "quick_cmd": f"./run.sh {pid} quick",
            "thorough_cmd": f"./run.sh {pid} thorough",
            "evidence_file": f"evidence/{pid}.json",
            "replay_cmd_template": "./run.sh replay {path}",
            "engine": "vcheck",
            "level_claimed": {"category": level, "text": text, "design_ref": ref},
            "level_note": note,
            "technique": tech,
        })
    else:
        na.append({"property_id": pid, "reason": NOT_YET})
man = {
 "version": 1,
 "setup_cmd": "./run.sh setup",
 "hooks": {
   "guard": "verif",
   "enable": "go build -tags verif -overlay /verif/build/overlay.json (hook files live in /verif/overlay and are injected into the repo tree by the overlay; /repo itself carries no hook code)",
   "baseline_off_cmd": BASE,
   "source_commits": [],
   "add_only": True,
 },
 "engines": [
   {"name": "vcheck", "path": "cmd/vcheck", "serves_properties": sorted(p for p in CHECKS if os.path.isdir(os.path.join(ROOT, "checks", p.lower()))),
    "kind_free_text": "hand-written explorer: choice-tree enumeration (full / deviation-bounded) and explicit-state BFS over the real implementation, oracle = independent reference models / relational invariants"},
 ],
 "checks": checks,
 "not_applicable": na,
 "notes": "All checks rebuild from /repo's working tree through run.sh (go build -tags verif -overlay). Known findings: known_findings.json.",
}
json.dump(man, open(os.path.join(ROOT, "MANIFEST.json"), "w"), indent=1)
print("checks:", len(checks), "not claimed:", len(na))
