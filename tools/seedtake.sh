#!/bin/bash
# seedtake.sh <Cxx> <letterA> <letterB> <worktree-root> <srcroot>: take over a sub-agent's SEED directory, remove its worktree, verify both changes
id=$1; la=$2; lb=$3; wt=${4:-/tmp/wt6}; src=${5:-/tmp/seedsrc6}
mkdir -p $src/$id
cp -r $wt/$id/SEED/. $src/$id/ 2>/dev/null
git -C /repo worktree remove --force $wt/$id 2>/dev/null
cd /verif
python3 tools/seedverify.py $id $la $src/$id/a
python3 tools/seedverify.py $id $lb $src/$id/b
