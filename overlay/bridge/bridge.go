//go:build verif

package zzverif

import (
	"sort"

	"github.com/np-guard/netpol-analyzer/pkg/netpol/internal/common"
)

// NamedPorts returns proto -> sorted named ports of a connection (nil if not a ConnectionSet).
func NamedPorts(c interface{}) map[string][]string {
	cs, ok := c.(*common.ConnectionSet)
	if !ok {
		return nil
	}
	res := map[string][]string{}
	for p, ps := range cs.AllowedProtocols {
		var names []string
		for n := range ps.NamedPorts {
			names = append(names, n)
		}
		sort.Strings(names)
		if len(names) > 0 {
			res[string(p)] = names
		}
	}
	return res
}

// Numeric returns proto -> list of [lo,hi].
func Numeric(c interface{}) map[string][][2]int {
	cs, ok := c.(*common.ConnectionSet)
	if !ok {
		return nil
	}
	res := map[string][][2]int{}
	for p, ps := range cs.AllowedProtocols {
		for _, iv := range ps.Ports.Intervals() {
			res[string(p)] = append(res[string(p)], [2]int{int(iv.Start()), int(iv.End())})
		}
	}
	return res
}
