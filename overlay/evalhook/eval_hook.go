//go:build verif

package eval

import (
	"encoding/json"
	"fmt"
	"sort"
	"strings"
)

// VerifDump: canonical textual dump of the private state.
func (pe *PolicyEngine) VerifDump() string {
	var sb strings.Builder
	keys := func(n int, f func(i int) string) []string {
		r := make([]string, n)
		for i := range r {
			r[i] = f(i)
		}
		sort.Strings(r)
		return r
	}
	_ = keys
	var ns []string
	for k, v := range pe.namespacesMap {
		ns = append(ns, fmt.Sprintf("%s=%v", k, v.Labels))
	}
	sort.Strings(ns)
	fmt.Fprintf(&sb, "NS%v\n", ns)
	var pods []string
	for k, p := range pe.podsMap {
		pods = append(pods, fmt.Sprintf("%s=%v|%v|%v|%v|%s", k, p.Labels, p.Ports, p.Owner, p.FakePod, p.HostIP))
	}
	sort.Strings(pods)
	fmt.Fprintf(&sb, "PODS%v\n", pods)
	var nps []string
	for n, m := range pe.netpolsMap {
		for k, v := range m {
			nps = append(nps, fmt.Sprintf("%s/%s=%v", n, k, v.Spec.String()))
		}
		nps = append(nps, "nsentry:"+n)
	}
	sort.Strings(nps)
	fmt.Fprintf(&sb, "NPS%v\n", nps)
	var own []string
	for n, m := range pe.podOwnersToRepresentativePodMap {
		for k, v := range m {
			own = append(own, fmt.Sprintf("%s/%s=%s", n, k, v.Name))
		}
		own = append(own, "nsentry:"+n)
	}
	sort.Strings(own)
	fmt.Fprintf(&sb, "OWN%v\n", own)
	var an []string
	for k := range pe.adminNetpolsMap {
		an = append(an, k)
	}
	sort.Strings(an)
	fmt.Fprintf(&sb, "ANPNAMES%v\nANPORDER[", an)
	for _, a := range pe.sortedAdminNetpols {
		fmt.Fprintf(&sb, "%s:%d:%s ", a.Name, a.Spec.Priority, js(a.Spec))
	}
	sb.WriteString("]\n")
	if pe.baselineAdminNetpol != nil {
		fmt.Fprintf(&sb, "BANP %s\n", js(pe.baselineAdminNetpol.Spec))
	}
	if pe.cache != nil && pe.cache.cache != nil {
		var ck []string
		for _, k := range pe.cache.cache.Keys() {
			v, _ := pe.cache.cache.Peek(k)
			ck = append(ck, fmt.Sprintf("%s=%v", k, v))
		}
		sort.Strings(ck)
		fmt.Fprintf(&sb, "CACHE%v\n", ck)
		var o []string
		for k, m := range pe.cache.ownerToPods {
			var ps []string
			for p := range m {
				ps = append(ps, p)
			}
			sort.Strings(ps)
			o = append(o, fmt.Sprintf("%s=%v", k, ps))
		}
		sort.Strings(o)
		fmt.Fprintf(&sb, "OWNERPODS%v\n", o)
	}
	return sb.String()
}

func (pe *PolicyEngine) VerifCacheDebug(on bool) { pe.cache.debug = on }

func js(v interface{}) string { b, _ := json.Marshal(v); return string(b) }
