#!/bin/bash
# Entry point of every MANIFEST command: ./run.sh setup | <Cxx> quick|thorough | replay <file>
set -u
ROOT="$(cd "$(dirname "${BASH_SOURCE[0]}")" && pwd)"
REPO="${VERIF_REPO:-/repo}"
export VERIF_ROOT="$ROOT" VERIF_REPO="$REPO"
export GOFLAGS=-mod=mod GOPROXY=off GOSUMDB=off GOTOOLCHAIN=local CARGO_NET_OFFLINE=true PIP_NO_INDEX=1
mkdir -p "$ROOT/build" "$ROOT/evidence" "$ROOT/replays"
cd "$ROOT" || exit 2

TAG="${VERIF_BUILD_TAG:-}"
OVERLAY="$ROOT/build/overlay$TAG.json"
BIN="$ROOT/build/vcheck$TAG"
gen_overlay() {
  # overlay: virtual packages / in-package hook files injected into the repo tree (all //go:build verif)
  python3 - "$ROOT" "$REPO" > "$OVERLAY" <<'PY'
import json, os, sys
root, repo = sys.argv[1], sys.argv[2]
rep = {}
for line in open(os.path.join(root, "overlay", "MAP")):
    line = line.strip()
    if not line or line.startswith("#"):
        continue
    src, dst = line.split()
    rep[os.path.join(repo, dst)] = os.path.join(root, "overlay", src)
extra = os.environ.get("VERIF_EXTRA_OVERLAY")
if extra:  # mutation testing: replace repo files without touching /repo
    rep.update(json.load(open(extra))["Replace"])
json.dump({"Replace": rep}, sys.stdout, indent=1)
PY
}

build() {
  gen_overlay
  # go.mod's replace directive must point at the repo under test
  if ! grep -q "=> $REPO\$" go.mod; then
    sed -i "s#^replace github.com/np-guard/netpol-analyzer => .*#replace github.com/np-guard/netpol-analyzer => $REPO#" go.mod
  fi
  if ! go build -tags verif -overlay "$OVERLAY" -o "$BIN" ./cmd/vcheck 2> "$ROOT/build/build$TAG.log"; then
    cat "$ROOT/build/build$TAG.log" >&2
    echo "HARNESS-ERROR: the tree under test (or the harness) does not build" >&2
    exit 2
  fi
}

build_cli() {
  # the CLI binary under test, built from the current tree (with the same overlay, so that mutation runs see the mutant)
  export VERIF_CLI_BIN="$ROOT/build/k8snetpolicy$TAG"
  if ! go build -tags verif -overlay "$OVERLAY" -o "$VERIF_CLI_BIN" github.com/np-guard/netpol-analyzer/cmd/netpolicy 2>> "$ROOT/build/build$TAG.log"; then
    cat "$ROOT/build/build$TAG.log" >&2
    echo "HARNESS-ERROR: the CLI of the tree under test does not build" >&2
    exit 2
  fi
}

build_sched() {
  # C08: every range over a map becomes a scheduler choice point (source-to-source overlay), separate binary
  ( cd "$ROOT/tools/maprewrite" && go build -o "$ROOT/build/maprewrite" . ) 2>> "$ROOT/build/build$TAG.log" || { cat "$ROOT/build/build$TAG.log" >&2; echo "HARNESS-ERROR: maprewrite does not build" >&2; exit 2; }
  rm -rf "$ROOT/build/mapsched$TAG"
  if ! "$ROOT/build/maprewrite" "$REPO" "$ROOT/build/mapsched$TAG" "$OVERLAY" "$ROOT/build/overlay.sched$TAG.json" "$ROOT/overlay/mapsched/sched.go.src" > "$ROOT/build/maprewrite$TAG.log" 2>&1; then
    cat "$ROOT/build/maprewrite$TAG.log" >&2
    echo "HARNESS-ERROR: the tree under test cannot be instrumented (does it build?)" >&2
    exit 2
  fi
  if ! go build -tags "verif verif_mapsched" -overlay "$ROOT/build/overlay.sched$TAG.json" -o "$ROOT/build/vcheck.sched$TAG" ./cmd/vcheck 2>> "$ROOT/build/build$TAG.log"; then
    cat "$ROOT/build/build$TAG.log" >&2
    echo "HARNESS-ERROR: the instrumented tree does not build" >&2
    exit 2
  fi
}

case "${1:-}" in
  setup)
    build
    build_cli
    build_sched
    echo "setup ok"
    ;;
  replay)
    build
    build_cli
    if grep -q '"property": "C08"' "$2" 2>/dev/null; then
      build_sched
      exec "$ROOT/build/vcheck.sched$TAG" replay "$2"
    fi
    exec "$BIN" replay "$2"
    ;;
  C*)
    build
    case "$1" in C03|C08|C09|C12|C13|C18) build_cli ;; esac
    if [ "$1" = C08 ]; then
      build_sched
      exec "$ROOT/build/vcheck.sched$TAG" "$1" "${2:-${VERIF_TIER:-quick}}"
    fi
    exec "$BIN" "$1" "${2:-${VERIF_TIER:-quick}}"
    ;;
  *)
    echo "usage: run.sh setup | <Cxx> quick|thorough | replay <file>" >&2
    exit 2
    ;;
esac
