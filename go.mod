module verif

go 1.22

require (
	github.com/np-guard/netpol-analyzer v0.0.0
	github.com/openshift/api v0.0.0-20230502160752-c71432710382
	k8s.io/api v0.29.2
	k8s.io/apimachinery v0.29.2
	k8s.io/cli-runtime v0.29.2
	sigs.k8s.io/network-policy-api v0.1.5
	sigs.k8s.io/yaml v1.4.0
)

require (
	github.com/davecgh/go-spew v1.1.1 // indirect
	github.com/emicklei/go-restful/v3 v3.11.0 // indirect
	github.com/evanphx/json-patch v5.6.0+incompatible // indirect
	github.com/go-errors/errors v1.4.2 // indirect
	github.com/go-logr/logr v1.4.1 // indirect
	github.com/go-openapi/jsonpointer v0.19.6 // indirect
	github.com/go-openapi/jsonreference v0.20.2 // indirect
	github.com/go-openapi/swag v0.22.3 // indirect
	github.com/gogo/protobuf v1.3.2 // indirect
	github.com/golang/protobuf v1.5.3 // indirect
	github.com/google/gnostic-models v0.6.8 // indirect
	github.com/google/gofuzz v1.2.0 // indirect
	github.com/google/shlex v0.0.0-20191202100458-e7afc7fbc510 // indirect
	github.com/google/uuid v1.3.0 // indirect
	github.com/hashicorp/golang-lru/v2 v2.0.7 // indirect
	github.com/imdario/mergo v0.3.6 // indirect
	github.com/josharian/intern v1.0.0 // indirect
	github.com/json-iterator/go v1.1.12 // indirect
	github.com/mailru/easyjson v0.7.7 // indirect
	github.com/modern-go/concurrent v0.0.0-20180306012644-bacd9c7ef1dd // indirect
	github.com/modern-go/reflect2 v1.0.2 // indirect
	github.com/monochromegane/go-gitignore v0.0.0-20200626010858-205db1a8cc00 // indirect
	github.com/munnerz/goautoneg v0.0.0-20191010083416-a7dc8b61c822 // indirect
	github.com/np-guard/models v0.5.2 // indirect
	github.com/pkg/errors v0.9.1 // indirect
	github.com/spf13/cobra v1.8.1 // indirect
	github.com/spf13/pflag v1.0.5 // indirect
	github.com/xlab/treeprint v1.2.0 // indirect
	go.starlark.net v0.0.0-20230525235612-a134d8f9ddca // indirect
	golang.org/x/net v0.23.0 // indirect
	golang.org/x/oauth2 v0.12.0 // indirect
	golang.org/x/sync v0.5.0 // indirect
	golang.org/x/sys v0.18.0 // indirect
	golang.org/x/term v0.18.0 // indirect
	golang.org/x/text v0.14.0 // indirect
	golang.org/x/time v0.3.0 // indirect
	google.golang.org/protobuf v1.33.0 // indirect
	gopkg.in/inf.v0 v0.9.1 // indirect
	gopkg.in/yaml.v2 v2.4.0 // indirect
	gopkg.in/yaml.v3 v3.0.1 // indirect
	k8s.io/client-go v0.29.2 // indirect
	k8s.io/klog/v2 v2.110.1 // indirect
	k8s.io/kube-openapi v0.0.0-20231010175941-2dd684a91f00 // indirect
	k8s.io/utils v0.0.0-20230726121419-3b25d923346b // indirect
	sigs.k8s.io/json v0.0.0-20221116044647-bc3834ca7abd // indirect
	sigs.k8s.io/kustomize/api v0.13.5-0.20230601165947-6ce0bf390ce3 // indirect
	sigs.k8s.io/kustomize/kyaml v0.14.3-0.20230601165947-6ce0bf390ce3 // indirect
	sigs.k8s.io/structured-merge-diff/v4 v4.4.1 // indirect
)

replace github.com/np-guard/netpol-analyzer => /repo
