package wm

import (
	"fmt"
	"sort"
	"strconv"
	"strings"

	appsv1 "k8s.io/api/apps/v1"
	corev1 "k8s.io/api/core/v1"
	netv1 "k8s.io/api/networking/v1"
	metav1 "k8s.io/apimachinery/pkg/apis/meta/v1"
	"k8s.io/apimachinery/pkg/apis/meta/v1/unstructured"
	"k8s.io/apimachinery/pkg/runtime"
	"k8s.io/apimachinery/pkg/types"
	"k8s.io/apimachinery/pkg/util/intstr"
	"k8s.io/cli-runtime/pkg/resource"
	apisv1a "sigs.k8s.io/network-policy-api/apis/v1alpha1"
	sigyaml "sigs.k8s.io/yaml"

	"github.com/np-guard/netpol-analyzer/pkg/logger"
	"github.com/np-guard/netpol-analyzer/pkg/netpol/connlist"
)

func (s *Sel) k8s() *metav1.LabelSelector {
	if s == nil {
		return nil
	}
	ls := &metav1.LabelSelector{}
	if len(s.ML) > 0 {
		ls.MatchLabels = map[string]string{}
		for k, v := range s.ML {
			ls.MatchLabels[k] = v
		}
	}
	for _, r := range s.ME {
		ls.MatchExpressions = append(ls.MatchExpressions, metav1.LabelSelectorRequirement{Key: r.Key, Operator: metav1.LabelSelectorOperator(r.Op), Values: append([]string{}, r.Vals...)})
	}
	return ls
}

func info(obj interface{}, apiVersion, kind string) *resource.Info {
	m, err := runtime.DefaultUnstructuredConverter.ToUnstructured(obj)
	if err != nil {
		panic(err)
	}
	m["apiVersion"] = apiVersion
	m["kind"] = kind
	return &resource.Info{Source: "mem.yaml", Object: &unstructured.Unstructured{Object: m}}
}

func (w *World) Infos() []*resource.Info {
	var res []*resource.Info
	for _, n := range w.NSs {
		if n.HasObj {
			res = append(res, info(&corev1.Namespace{ObjectMeta: metav1.ObjectMeta{Name: n.Name, Labels: n.Labels}}, "v1", "Namespace"))
		}
	}
	for _, wl := range w.WLs {
		var cps []corev1.ContainerPort
		for _, cp := range wl.Ports {
			cps = append(cps, corev1.ContainerPort{Name: cp.Name, ContainerPort: int32(cp.Num), Protocol: corev1.Protocol(cp.Proto)})
		}
		tmpl := corev1.PodTemplateSpec{ObjectMeta: metav1.ObjectMeta{Labels: wl.Labels},
			Spec: corev1.PodSpec{Containers: Containers(cps), InitContainers: InitContainers()}}
		r := int32(wl.Replicas)
		switch wl.Kind {
		case "Deployment":
			res = append(res, info(&appsv1.Deployment{ObjectMeta: metav1.ObjectMeta{Name: wl.Name, Namespace: wl.NS},
				Spec: appsv1.DeploymentSpec{Replicas: &r, Template: tmpl}}, "apps/v1", "Deployment"))
		case "StatefulSet":
			res = append(res, info(&appsv1.StatefulSet{ObjectMeta: metav1.ObjectMeta{Name: wl.Name, Namespace: wl.NS},
				Spec: appsv1.StatefulSetSpec{Replicas: &r, Template: tmpl}}, "apps/v1", "StatefulSet"))
		case "Pod":
			res = append(res, InfoPod(wl.NS, wl.Name, wl.Owner, wl.Labels, wl.Ports))
		default:
			panic("kind")
		}
	}
	for _, np := range w.NPs {
		np := np
		res = append(res, InfoNP(&np))
	}
	for _, a := range w.ANPs {
		res = append(res, info(a.K8s(), "policy.networking.k8s.io/v1alpha1", "AdminNetworkPolicy"))
	}
	if w.BANP != nil {
		res = append(res, info(w.BANP.K8sB(), "policy.networking.k8s.io/v1alpha1", "BaselineAdminNetworkPolicy"))
	}
	for _, s := range w.Svcs {
		res = append(res, s.Info())
	}
	for _, i := range w.Ings {
		res = append(res, i.Info())
	}
	for _, r := range w.Routes {
		res = append(res, r.Info())
	}
	return res
}

func (np *NP) K8s() *netv1.NetworkPolicy {
	o := &netv1.NetworkPolicy{ObjectMeta: metav1.ObjectMeta{Name: np.Name, Namespace: np.NS, UID: types.UID(np.UID)}}
	o.Spec.PodSelector = *np.PodSel.k8s()
	for _, t := range np.Types {
		o.Spec.PolicyTypes = append(o.Spec.PolicyTypes, netv1.PolicyType(t))
	}
	conv := func(r NPRule) ([]netv1.NetworkPolicyPeer, []netv1.NetworkPolicyPort) {
		var peers []netv1.NetworkPolicyPeer
		for _, p := range r.Peers {
			if p.CIDR != "" {
				peers = append(peers, netv1.NetworkPolicyPeer{IPBlock: &netv1.IPBlock{CIDR: p.CIDR, Except: p.Except}})
			} else {
				peers = append(peers, netv1.NetworkPolicyPeer{PodSelector: p.Pod.k8s(), NamespaceSelector: p.NSSel.k8s()})
			}
		}
		var ports []netv1.NetworkPolicyPort
		for _, p := range r.Ports {
			var pp netv1.NetworkPolicyPort
			if p.Proto != "" {
				pr := corev1.Protocol(p.Proto)
				pp.Protocol = &pr
			}
			if p.HasPort {
				var v intstr.IntOrString
				if p.Name != "" {
					v = intstr.FromString(p.Name)
				} else {
					v = intstr.FromInt(p.Num)
				}
				pp.Port = &v
				if p.End != 0 {
					e := int32(p.End)
					pp.EndPort = &e
				}
			}
			ports = append(ports, pp)
		}
		return peers, ports
	}
	for _, r := range np.Ingress {
		peers, ports := conv(r)
		o.Spec.Ingress = append(o.Spec.Ingress, netv1.NetworkPolicyIngressRule{From: peers, Ports: ports})
	}
	for _, r := range np.Egress {
		peers, ports := conv(r)
		o.Spec.Egress = append(o.Spec.Egress, netv1.NetworkPolicyEgressRule{To: peers, Ports: ports})
	}
	return o
}

func aports(ps *[]APort) *[]apisv1a.AdminNetworkPolicyPort {
	if ps == nil {
		return nil
	}
	res := []apisv1a.AdminNetworkPolicyPort{}
	for _, p := range *ps {
		switch p.Kind {
		case "num":
			res = append(res, apisv1a.AdminNetworkPolicyPort{PortNumber: &apisv1a.Port{Protocol: corev1.Protocol(p.Proto), Port: int32(p.Num)}})
		case "range":
			res = append(res, apisv1a.AdminNetworkPolicyPort{PortRange: &apisv1a.PortRange{Protocol: corev1.Protocol(p.Proto), Start: int32(p.Num), End: int32(p.End)}})
		case "named":
			n := p.Name
			res = append(res, apisv1a.AdminNetworkPolicyPort{NamedPort: &n})
		}
	}
	return &res
}

func (ap APeer) subject() apisv1a.AdminNetworkPolicySubject {
	if ap.Namespaces != nil {
		return apisv1a.AdminNetworkPolicySubject{Namespaces: ap.Namespaces.k8s()}
	}
	return apisv1a.AdminNetworkPolicySubject{Pods: &apisv1a.NamespacedPod{NamespaceSelector: *ap.PodsNS.k8s(), PodSelector: *ap.PodsPod.k8s()}}
}

func (a *ANP) K8s() *apisv1a.AdminNetworkPolicy {
	o := &apisv1a.AdminNetworkPolicy{ObjectMeta: metav1.ObjectMeta{Name: a.Name}}
	o.Spec.Priority = int32(a.Prio)
	o.Spec.Subject = a.Subject.subject()
	for i, r := range a.Ingress {
		var peers []apisv1a.AdminNetworkPolicyIngressPeer
		for _, p := range r.Peers {
			s := p.subject()
			peers = append(peers, apisv1a.AdminNetworkPolicyIngressPeer{Namespaces: s.Namespaces, Pods: s.Pods})
		}
		o.Spec.Ingress = append(o.Spec.Ingress, apisv1a.AdminNetworkPolicyIngressRule{Name: "i" + strconv.Itoa(i), Action: apisv1a.AdminNetworkPolicyRuleAction(r.Action), From: peers, Ports: aports(r.Ports)})
	}
	for i, r := range a.Egress {
		var peers []apisv1a.AdminNetworkPolicyEgressPeer
		for _, p := range r.Peers {
			s := p.subject()
			peers = append(peers, apisv1a.AdminNetworkPolicyEgressPeer{Namespaces: s.Namespaces, Pods: s.Pods})
		}
		o.Spec.Egress = append(o.Spec.Egress, apisv1a.AdminNetworkPolicyEgressRule{Name: "e" + strconv.Itoa(i), Action: apisv1a.AdminNetworkPolicyRuleAction(r.Action), To: peers, Ports: aports(r.Ports)})
	}
	return o
}

func (a *ANP) K8sB() *apisv1a.BaselineAdminNetworkPolicy {
	x := a.K8s()
	o := &apisv1a.BaselineAdminNetworkPolicy{ObjectMeta: metav1.ObjectMeta{Name: "default"}}
	o.Spec.Subject = x.Spec.Subject
	for _, r := range x.Spec.Ingress {
		o.Spec.Ingress = append(o.Spec.Ingress, apisv1a.BaselineAdminNetworkPolicyIngressRule{Name: r.Name, Action: apisv1a.BaselineAdminNetworkPolicyRuleAction(r.Action), From: r.From, Ports: r.Ports})
	}
	for _, r := range x.Spec.Egress {
		o.Spec.Egress = append(o.Spec.Egress, apisv1a.BaselineAdminNetworkPolicyEgressRule{Name: r.Name, Action: apisv1a.BaselineAdminNetworkPolicyRuleAction(r.Action), To: r.To, Ports: r.Ports})
	}
	return o
}

// ---------- tool adapter ----------

type ToolResult struct {
	Err      error
	Conns    map[string]string // "src|dst" -> conn string
	IPs      [][2]uint32       // IP peers
	WF       []string          // violations of the C05 well-formedness invariant
	RawConns []connlist.Peer2PeerConnection
	RawPeers []connlist.Peer
	Errors   []connlist.ConnlistError
}

// silent logger: the harness observes results and Errors(), never the log
type silentLogger struct{}

func (silentLogger) Debugf(string, ...interface{})        {}
func (silentLogger) Infof(string, ...interface{})         {}
func (silentLogger) Warnf(string, ...interface{})         {}
func (silentLogger) Errorf(error, string, ...interface{}) {}

var quiet logger.Logger = silentLogger{}

// Quiet returns the silent logger.
func Quiet() logger.Logger { return quiet }

func parseIP(s string) uint32 {
	var a, b, c, d uint32
	fmt.Sscanf(s, "%d.%d.%d.%d", &a, &b, &c, &d)
	return a<<24 | b<<16 | c<<8 | d
}

func ParseRange(s string) (uint32, uint32) {
	p := strings.Split(s, "-")
	return parseIP(p[0]), parseIP(p[1])
}

func RunList(infos []*resource.Info, exposure bool) (ToolResult, *connlist.ConnlistAnalyzer) {
	// no WithMuteErrsAndWarns: the silent logger discards the messages; muting must be a matter of logging only, and diff
	// (which mutes its internal analyses) is compared with list as a user runs it
	opts := []connlist.ConnlistAnalyzerOption{connlist.WithLogger(quiet)}
	if exposure {
		opts = append(opts, connlist.WithExposureAnalysis())
	}
	ca := connlist.NewConnlistAnalyzer(opts...)
	conns, peers, err := ca.ConnlistFromResourceInfos(infos)
	res := ToolResult{Err: err, Conns: map[string]string{}}
	res.Errors = ca.Errors()
	if err != nil {
		return res, ca
	}
	res.RawConns, res.RawPeers = conns, peers
	res.WF = WellFormed(conns, peers)
	if exposure {
		// the connections of the exposure entries are connections of the report too: the same canonical form
		for _, ep := range ca.ExposedPeers() {
			for dir, xs := range map[string][]connlist.XgressExposureData{"ingress": ep.IngressExposure(), "egress": ep.EgressExposure()} {
				for _, e := range xs {
					pc := e.PotentialConnectivity()
					if pc.IsAllConnections() {
						continue
					}
					full := 0
					for _, rs := range pc.ProtocolsAndPortsMap() {
						if len(rs) == 1 && rs[0].Start() == 1 && rs[0].End() == 65535 {
							full++
						}
					}
					if full == 3 {
						res.WF = append(res.WF, fmt.Sprintf("all protocols and ports spelled as three full ranges: %s exposure entry of %s", dir, ep.ExposedPeer().String()))
					}
				}
			}
		}
	}
	for _, c := range conns {
		m := map[string][]Interval{}
		if c.AllProtocolsAndPorts() {
			for _, p := range []string{"TCP", "UDP", "SCTP"} {
				m[p] = []Interval{{1, 65535}}
			}
		}
		for p, rs := range c.ProtocolsAndPorts() {
			for _, r := range rs {
				m[string(p)] = append(m[string(p)], Interval{int(r.Start()), int(r.End())})
			}
		}
		key := c.Src().String() + "|" + c.Dst().String()
		if _, dup := res.Conns[key]; dup {
			res.Conns[key] = "DUPLICATE"
		} else {
			res.Conns[key] = ConnString(m)
		}
	}
	for _, p := range peers {
		if p.IsPeerIPType() {
			lo, hi := ParseRange(p.String())
			res.IPs = append(res.IPs, [2]uint32{lo, hi})
		}
	}
	sort.Slice(res.IPs, func(i, j int) bool { return res.IPs[i][0] < res.IPs[j][0] })
	return res, ca
}

func ipStr(x uint32) string {
	return fmt.Sprintf("%d.%d.%d.%d", x>>24, x>>16&255, x>>8&255, x&255)
}

// Compare returns a list of mismatches between tool and reference for world w.
func (w *World) Compare(tr ToolResult) []string {
	var bad []string
	// IP partition well-formedness
	var next uint64
	for _, r := range tr.IPs {
		if uint64(r[0]) != next {
			bad = append(bad, fmt.Sprintf("ip partition gap/overlap at %s", ipStr(r[0])))
		}
		next = uint64(r[1]) + 1
	}
	if next != 1<<32 {
		bad = append(bad, "ip partition does not cover space")
	}
	rangeOf := func(ip uint32) string {
		for _, r := range tr.IPs {
			if ip >= r[0] && ip <= r[1] {
				return ipStr(r[0]) + "-" + ipStr(r[1])
			}
		}
		return "?"
	}
	get := func(k string) string {
		if v, ok := tr.Conns[k]; ok {
			return v
		}
		return "No Connections"
	}
	seen := map[string]bool{}
	for i := range w.WLs {
		for j := range w.WLs {
			if i == j {
				continue
			}
			k := w.WLs[i].PeerString() + "|" + w.WLs[j].PeerString()
			seen[k] = true
			exp := ConnString(w.RefConn(Peer{WL: i}, Peer{WL: j}))
			if got := get(k); got != exp {
				bad = append(bad, fmt.Sprintf("%s: tool=%q ref=%q", k, got, exp))
			}
		}
	}
	// IP cells: refinement of tool ranges and ref cuts
	cutset := map[uint32]bool{}
	for _, c := range w.IPCuts() {
		cutset[c] = true
	}
	for _, r := range tr.IPs {
		cutset[r[0]] = true
	}
	for c := range cutset {
		for i := range w.WLs {
			ws := w.WLs[i].PeerString()
			rs := rangeOf(c)
			k1 := ws + "|" + rs
			seen[k1] = true
			exp := ConnString(w.RefConn(Peer{WL: i}, Peer{WL: -1, IP: c}))
			if got := get(k1); got != exp {
				bad = append(bad, fmt.Sprintf("%s @%s: tool=%q ref=%q", k1, ipStr(c), got, exp))
			}
			k2 := rs + "|" + ws
			seen[k2] = true
			exp = ConnString(w.RefConn(Peer{WL: -1, IP: c}, Peer{WL: i}))
			if got := get(k2); got != exp {
				bad = append(bad, fmt.Sprintf("%s @%s: tool=%q ref=%q", k2, ipStr(c), got, exp))
			}
		}
	}
	for k := range tr.Conns {
		if !seen[k] {
			bad = append(bad, "unexpected entry "+k)
		}
	}
	sort.Strings(bad)
	return bad
}

// ---------- single-object emitters (for checks that control the document order) ----------

func InfoNS(n NS) *resource.Info {
	return info(&corev1.Namespace{ObjectMeta: metav1.ObjectMeta{Name: n.Name, Labels: n.Labels}}, "v1", "Namespace")
}
func InfoNP(np *NP) *resource.Info {
	inf := info(np.K8s(), "networking.k8s.io/v1", "NetworkPolicy")
	m := inf.Object.(*unstructured.Unstructured).Object
	spec, _ := m["spec"].(map[string]interface{})
	if spec == nil {
		return inf
	}
	// explicit empty lists (dropped by omitempty when converting the typed object)
	if len(np.Ingress) == 0 && np.IngressEmptyList {
		spec["ingress"] = []interface{}{}
	}
	if len(np.Egress) == 0 && np.EgressEmptyList {
		spec["egress"] = []interface{}{}
	}
	fix := func(key, peerKey string, rules []NPRule) {
		l, _ := spec[key].([]interface{})
		for i := range rules {
			if i >= len(l) {
				break
			}
			rm, _ := l[i].(map[string]interface{})
			if rm == nil {
				continue
			}
			if len(rules[i].Peers) == 0 && rules[i].PeersEmptyList {
				rm[peerKey] = []interface{}{}
			}
			if len(rules[i].Ports) == 0 && rules[i].PortsEmptyList {
				rm["ports"] = []interface{}{}
			}
		}
	}
	fix("ingress", "from", np.Ingress)
	fix("egress", "to", np.Egress)
	return inf
}
func InfoANP(a *ANP) *resource.Info {
	inf := info(a.K8s(), "policy.networking.k8s.io/v1alpha1", "AdminNetworkPolicy")
	if int(int32(a.Prio)) != a.Prio {
		// a priority that does not fit the API's int32: written into the document as it is (a manifest is text)
		inf.Object.(*unstructured.Unstructured).Object["spec"].(map[string]interface{})["priority"] = int64(a.Prio)
	}
	return inf
}

// InfoBANP emits a BaselineAdminNetworkPolicy with the given metadata.name.
func InfoBANP(a *ANP, name string) *resource.Info {
	o := a.K8sB()
	o.Name = name
	return info(o, "policy.networking.k8s.io/v1alpha1", "BaselineAdminNetworkPolicy")
}

// InfoPod emits a bare Pod; owner != "" adds a controller ownerReference (ReplicaSet).
func InfoPod(ns, name, owner string, labels map[string]string, ports []CPort) *resource.Info {
	return InfoPodIPs(ns, name, owner, labels, ports, "192.168.1.1", "10.0.0.1")
}

// PodHostIP / PodIP: addresses of the i-th pod of a workload expressed as Pods (pods of one workload run on different nodes).
func PodHostIP(i int) string { return fmt.Sprintf("10.1.2.%d", 3+i) }
func PodIP(i int) string     { return fmt.Sprintf("10.9.0.%d", 1+i) }

// InfoPodIPs is InfoPod with explicit status.hostIP and pod IP.
func InfoPodIPs(ns, name, owner string, labels map[string]string, ports []CPort, hostIP, podIP string) *resource.Info {
	var cps []corev1.ContainerPort
	for _, cp := range ports {
		cps = append(cps, corev1.ContainerPort{Name: cp.Name, ContainerPort: int32(cp.Num), Protocol: corev1.Protocol(cp.Proto)})
	}
	p := &corev1.Pod{ObjectMeta: metav1.ObjectMeta{Name: name, Namespace: ns, Labels: labels},
		Spec:   corev1.PodSpec{Containers: Containers(cps), InitContainers: InitContainers()},
		Status: corev1.PodStatus{HostIP: hostIP, PodIPs: []corev1.PodIP{{IP: podIP}}}}
	if owner != "" {
		t := true
		p.OwnerReferences = []metav1.OwnerReference{{Kind: "ReplicaSet", Name: owner, APIVersion: "apps/v1", Controller: &t}}
	}
	return info(p, "v1", "Pod")
}

func InfoWorkload(wl Workload) *resource.Info {
	w := World{WLs: []Workload{wl}}
	return w.Infos()[0]
}

// InfoYAML renders infos as YAML documents.
func InfoYAML(infos []*resource.Info) []string {
	var res []string
	for _, inf := range infos {
		b, _ := sigyaml.Marshal(inf.Object)
		res = append(res, string(b))
	}
	return res
}

// Containers spreads the container ports over two containers (even positions in the first, odd
// positions in the second) behind a container without ports, so that code which looks only at the
// first container, or stops at the first container that has ports, is visible.
// InitContainers: every emitted pod (template) also carries a sidecar in the form of an init container with restartPolicy
// Always that declares a port named "mesh". The tool reads the ports of spec.containers only; whatever it does with this
// one, it must do for Pods and for pod templates alike.
func InitContainers() []corev1.Container {
	always := corev1.ContainerRestartPolicyAlways
	return []corev1.Container{{Name: "mesh-sidecar", Image: "x", RestartPolicy: &always, Ports: []corev1.ContainerPort{{Name: "mesh", ContainerPort: 15090}}}}
}

func Containers(cps []corev1.ContainerPort) []corev1.Container {
	cs := []corev1.Container{{Name: "sidecar-without-ports", Image: "x"}, {Name: "c0", Image: "x"}}
	if len(cps) > 1 {
		cs = append(cs, corev1.Container{Name: "c1", Image: "x"})
	}
	for i, cp := range cps {
		k := 1 + i%2
		cs[k].Ports = append(cs[k].Ports, cp)
	}
	return cs
}
