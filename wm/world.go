// Package wm: prototype world model, emitters and reference semantics.
package wm

import (
	"fmt"
	"sort"
	"strings"
)

type Req struct {
	Key, Op string
	Vals    []string
}

// Sel is a label selector; a nil *Sel means "absent".
type Sel struct {
	ML map[string]string
	ME []Req
}

type CPort struct {
	Name  string
	Num   int
	Proto string // "" = default TCP
}

type Workload struct {
	Kind, NS, Name string
	Owner          string // Kind "Pod" only: name of a controlling ReplicaSet ("" = bare pod)
	Labels         map[string]string
	Ports          []CPort
	Replicas       int
}

type NS struct {
	Name   string
	Labels map[string]string
	HasObj bool
}

type NPPort struct {
	Proto   string // "" = absent (default TCP)
	HasPort bool
	Num     int
	Name    string
	End     int // 0 = absent
}

type NPPeer struct {
	Pod, NSSel *Sel
	CIDR       string
	Except     []string
}

type NPRule struct {
	Peers []NPPeer
	Ports []NPPort
	// spell an empty list as `[]` instead of omitting the field (same meaning in the API)
	PeersEmptyList, PortsEmptyList bool
}

type NP struct {
	NS, Name        string
	PodSel          Sel
	Types           []string // nil = absent
	Ingress, Egress []NPRule
	// spell a direction without rules as `ingress: []` / `egress: []` instead of omitting it
	IngressEmptyList, EgressEmptyList bool
	UID                               string // metadata.uid ("" = absent)
}

type APort struct {
	Kind  string // "num", "range", "named"
	Proto string
	Num   int
	End   int
	Name  string
}

type APeer struct {
	Namespaces *Sel
	PodsNS     *Sel
	PodsPod    *Sel
}

type ARule struct {
	Action string
	Peers  []APeer
	Ports  *[]APort
}

type ANP struct {
	Name            string
	Prio            int
	Subject         APeer
	Ingress, Egress []ARule
}

type World struct {
	NSs  []NS
	WLs  []Workload
	NPs  []NP
	ANPs []ANP
	BANP *ANP
	// ingress objects
	Svcs   []Svc
	Ings   []Ing
	Routes []Route
}

// ---------- selector semantics (independent of apimachinery) ----------

func (s *Sel) Matches(labels map[string]string) bool {
	if s == nil {
		return true
	}
	for k, v := range s.ML {
		if lv, ok := labels[k]; !ok || lv != v {
			return false
		}
	}
	for _, r := range s.ME {
		lv, has := labels[r.Key]
		in := false
		for _, v := range r.Vals {
			if has && v == lv {
				in = true
			}
		}
		switch r.Op {
		case "In":
			if !in {
				return false
			}
		case "NotIn":
			if in {
				return false
			}
		case "Exists":
			if !has {
				return false
			}
		case "DoesNotExist":
			if has {
				return false
			}
		default:
			panic("bad op " + r.Op)
		}
	}
	return true
}

func (w *World) NSLabels(name string) map[string]string {
	res := map[string]string{}
	for _, n := range w.NSs {
		if n.Name == name && n.HasObj {
			for k, v := range n.Labels {
				res[k] = v
			}
		}
	}
	// the API server sets this label to the namespace's own name whatever a manifest says
	res["kubernetes.io/metadata.name"] = name
	return res
}

// ---------- peers ----------

// Peer: workload index >= 0, or IP (WL == -1).
type Peer struct {
	WL int
	IP uint32
}

func (p Peer) IsIP() bool { return p.WL < 0 }

func protoOf(s string) string {
	if s == "" {
		return "TCP"
	}
	return s
}

// resolve named port on workload: returns (proto, num, ok)
func (wl *Workload) named(name string) (string, int, bool) {
	if name == "" {
		return "", 0, false // a container port without a name is not a port named ""
	}
	for _, cp := range wl.Ports {
		if cp.Name == name {
			return protoOf(cp.Proto), cp.Num, true
		}
	}
	return "", 0, false
}

func (w *World) NPPortMatches(p NPPort, dst Peer, proto string, port int) bool {
	rp := protoOf(p.Proto)
	if !p.HasPort {
		return rp == proto
	}
	if p.Name != "" {
		if dst.IsIP() {
			return false
		}
		pp, n, ok := w.WLs[dst.WL].named(p.Name)
		return ok && pp == rp && rp == proto && n == port
	}
	if rp != proto {
		return false
	}
	end := p.Num
	if p.End != 0 {
		end = p.End
	}
	return port >= p.Num && port <= end
}

func ipInCIDR(ip uint32, cidr string) bool {
	if strings.Contains(cidr, ":") {
		return false // an IPv6 block contains no IPv4 address
	}
	lo, hi := CIDRRange(cidr)
	return ip >= lo && ip <= hi
}

func (w *World) NPPeerMatches(np *NP, pr NPPeer, other Peer) bool {
	if pr.CIDR != "" {
		if !other.IsIP() {
			return false
		}
		if !ipInCIDR(other.IP, pr.CIDR) {
			return false
		}
		for _, e := range pr.Except {
			if ipInCIDR(other.IP, e) {
				return false
			}
		}
		return true
	}
	if other.IsIP() {
		return false
	}
	o := &w.WLs[other.WL]
	if pr.NSSel == nil {
		if o.NS != np.NS {
			return false
		}
	} else if !pr.NSSel.Matches(w.NSLabels(o.NS)) {
		return false
	}
	if pr.Pod != nil && !pr.Pod.Matches(o.Labels) {
		return false
	}
	return true
}

func (np *NP) governs(dir string) bool {
	if np.Types != nil {
		for _, t := range np.Types {
			if t == dir {
				return true
			}
		}
		return false
	}
	if dir == "Ingress" {
		return true
	}
	return len(np.Egress) > 0
}

// npLayer: (governed, allowed)
func (w *World) npLayer(pod int, other Peer, dir string, dst Peer, proto string, port int) (bool, bool) {
	governed := false
	p := &w.WLs[pod]
	for i := range w.NPs {
		np := &w.NPs[i]
		if np.NS != p.NS || !np.governs(dir) || !np.PodSel.Matches(p.Labels) {
			continue
		}
		governed = true
		rules := np.Ingress
		if dir == "Egress" {
			rules = np.Egress
		}
		for _, r := range rules {
			pm := len(r.Peers) == 0
			for _, pr := range r.Peers {
				if w.NPPeerMatches(np, pr, other) {
					pm = true
				}
			}
			if !pm {
				continue
			}
			if len(r.Ports) == 0 {
				return true, true
			}
			for _, pt := range r.Ports {
				if w.NPPortMatches(pt, dst, proto, port) {
					return true, true
				}
			}
		}
	}
	return governed, false
}

func (w *World) aPeerMatches(ap APeer, other Peer) bool {
	if other.IsIP() {
		return false
	}
	o := &w.WLs[other.WL]
	if ap.Namespaces != nil {
		return ap.Namespaces.Matches(w.NSLabels(o.NS))
	}
	return ap.PodsNS.Matches(w.NSLabels(o.NS)) && ap.PodsPod.Matches(o.Labels)
}

func (w *World) aPortsMatch(ports *[]APort, dst Peer, proto string, port int) bool {
	if ports == nil || len(*ports) == 0 {
		return true // "If Ports is not set then the rule does not filter traffic via port": an explicitly empty list is not set either
	}
	for _, p := range *ports {
		switch p.Kind {
		case "num":
			if protoOf(p.Proto) == proto && p.Num == port {
				return true
			}
		case "range":
			if protoOf(p.Proto) == proto && port >= p.Num && port <= p.End {
				return true
			}
		case "named":
			if dst.IsIP() {
				continue
			}
			pp, n, ok := w.WLs[dst.WL].named(p.Name)
			if ok && pp == proto && n == port {
				return true
			}
		}
	}
	return false
}

// adminVerdict scans one (B)ANP's rules: returns action or "".
func (w *World) adminVerdict(a *ANP, pod int, other Peer, dir string, dst Peer, proto string, port int) string {
	rules := a.Ingress
	if dir == "Egress" {
		rules = a.Egress
	}
	if len(rules) == 0 {
		return ""
	}
	if !w.aPeerMatches(a.Subject, Peer{WL: pod}) {
		return ""
	}
	for _, r := range rules {
		m := false
		for _, ap := range r.Peers {
			if w.aPeerMatches(ap, other) {
				m = true
			}
		}
		if m && w.aPortsMatch(r.Ports, dst, proto, port) {
			return r.Action
		}
	}
	return ""
}

func (w *World) dirAllowed(pod int, other Peer, dir string, dst Peer, proto string, port int) bool {
	anps := make([]*ANP, len(w.ANPs))
	for i := range w.ANPs {
		anps[i] = &w.ANPs[i]
	}
	sort.SliceStable(anps, func(i, j int) bool { return anps[i].Prio < anps[j].Prio })
	for _, a := range anps {
		switch w.adminVerdict(a, pod, other, dir, dst, proto, port) {
		case "Allow":
			return true
		case "Deny":
			return false
		case "Pass":
			goto nplayer
		}
	}
nplayer:
	if gov, ok := w.npLayer(pod, other, dir, dst, proto, port); gov {
		return ok
	}
	if w.BANP != nil {
		if w.adminVerdict(w.BANP, pod, other, dir, dst, proto, port) == "Deny" {
			return false
		}
	}
	return true
}

// Allowed is the pointwise reference verdict.
func (w *World) Allowed(src, dst Peer, proto string, port int) bool {
	if !src.IsIP() && !w.dirAllowed(src.WL, dst, "Egress", dst, proto, port) {
		return false
	}
	if !dst.IsIP() && !w.dirAllowed(dst.WL, src, "Ingress", dst, proto, port) {
		return false
	}
	return true
}

// ---------- cells ----------

func CIDRRange(cidr string) (uint32, uint32) {
	var a, b, c, d, n int
	if _, err := fmt.Sscanf(cidr, "%d.%d.%d.%d/%d", &a, &b, &c, &d, &n); err != nil {
		panic(err)
	}
	ip := uint32(a)<<24 | uint32(b)<<16 | uint32(c)<<8 | uint32(d)
	var mask uint32
	if n > 0 {
		mask = ^uint32(0) << (32 - n)
	}
	return ip & mask, ip&mask | ^mask
}

// PortCuts returns sorted cell start points in [1,65535].
func (w *World) PortCuts() []int {
	set := map[int]bool{1: true}
	add := func(n int) {
		for _, x := range []int{n, n + 1} {
			if x >= 1 && x <= 65535 {
				set[x] = true
			}
		}
	}
	for _, wl := range w.WLs {
		for _, cp := range wl.Ports {
			add(cp.Num)
		}
	}
	for _, np := range w.NPs {
		for _, rs := range [][]NPRule{np.Ingress, np.Egress} {
			for _, r := range rs {
				for _, p := range r.Ports {
					if p.HasPort && p.Name == "" {
						add(p.Num - 1)
						add(p.Num)
						if p.End != 0 {
							add(p.End)
						}
					}
				}
			}
		}
	}
	all := append([]ANP{}, w.ANPs...)
	if w.BANP != nil {
		all = append(all, *w.BANP)
	}
	for _, a := range all {
		for _, rs := range [][]ARule{a.Ingress, a.Egress} {
			for _, r := range rs {
				if r.Ports != nil {
					for _, p := range *r.Ports {
						if p.Kind != "named" {
							add(p.Num - 1)
							add(p.Num)
							add(p.End)
						}
					}
				}
			}
		}
	}
	res := []int{}
	for k := range set {
		res = append(res, k)
	}
	sort.Ints(res)
	return res
}

// IPCuts returns sorted cell start addresses.
func (w *World) IPCuts() []uint32 {
	set := map[uint32]bool{0: true}
	add := func(c string) {
		if strings.Contains(c, ":") {
			return
		}
		lo, hi := CIDRRange(c)
		set[lo] = true
		if hi != ^uint32(0) {
			set[hi+1] = true
		}
	}
	for _, np := range w.NPs {
		for _, rs := range [][]NPRule{np.Ingress, np.Egress} {
			for _, r := range rs {
				for _, p := range r.Peers {
					if p.CIDR != "" {
						add(p.CIDR)
						for _, e := range p.Except {
							add(e)
						}
					}
				}
			}
		}
	}
	res := []uint32{}
	for k := range set {
		res = append(res, k)
	}
	sort.Slice(res, func(i, j int) bool { return res[i] < res[j] })
	return res
}

type Interval struct{ Lo, Hi int }

// RefConn computes proto -> canonical interval list.
func (w *World) RefConn(src, dst Peer) map[string][]Interval {
	cuts := w.PortCuts()
	res := map[string][]Interval{}
	for _, proto := range []string{"TCP", "UDP", "SCTP"} {
		var ivs []Interval
		for i, c := range cuts {
			hi := 65535
			if i+1 < len(cuts) {
				hi = cuts[i+1] - 1
			}
			if w.Allowed(src, dst, proto, c) {
				if n := len(ivs); n > 0 && ivs[n-1].Hi == c-1 {
					ivs[n-1].Hi = hi
				} else {
					ivs = append(ivs, Interval{c, hi})
				}
			}
		}
		if len(ivs) > 0 {
			res[proto] = ivs
		}
	}
	return res
}

func ConnString(c map[string][]Interval) string {
	if len(c) == 0 {
		return "No Connections"
	}
	if len(c) == 3 {
		all := true
		for _, v := range c {
			if len(v) != 1 || v[0] != (Interval{1, 65535}) {
				all = false
			}
		}
		if all {
			return "All Connections"
		}
	}
	var parts []string
	for p, ivs := range c {
		var s []string
		for _, iv := range ivs {
			if iv.Lo == iv.Hi {
				s = append(s, fmt.Sprint(iv.Lo))
			} else {
				s = append(s, fmt.Sprintf("%d-%d", iv.Lo, iv.Hi))
			}
		}
		parts = append(parts, p+" "+strings.Join(s, ","))
	}
	sort.Strings(parts)
	return strings.Join(parts, ",")
}

func (wl *Workload) PeerString() string {
	if wl.Kind == "Pod" && wl.Owner != "" {
		return wl.NS + "/" + wl.Owner + "[ReplicaSet]"
	}
	return wl.NS + "/" + wl.Name + "[" + wl.Kind + "]"
}
