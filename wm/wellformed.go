package wm

import (
	"fmt"
	"regexp"
	"sort"

	"github.com/np-guard/netpol-analyzer/pkg/netpol/connlist"
)

var rangeRE = regexp.MustCompile(`^(\d+)\.(\d+)\.(\d+)\.(\d+)-(\d+)\.(\d+)\.(\d+)\.(\d+)$`)

// StrictRange parses "a.b.c.d-e.f.g.h".
func StrictRange(s string) (lo, hi uint32, ok bool) {
	m := rangeRE.FindStringSubmatch(s)
	if m == nil {
		return 0, 0, false
	}
	var v [8]uint32
	for i := 0; i < 8; i++ {
		var x int
		fmt.Sscan(m[i+1], &x)
		if x > 255 {
			return 0, 0, false
		}
		v[i] = uint32(x)
	}
	lo = v[0]<<24 | v[1]<<16 | v[2]<<8 | v[3]
	hi = v[4]<<24 | v[5]<<16 | v[6]<<8 | v[7]
	return lo, hi, lo <= hi
}

// WellFormed checks the C05 invariant on a list result: returns the list of problems (empty = ok).
// requireCover: the IP peers must partition the whole IPv4 space (asserted when the result contains
// at least one workload peer).
func WellFormed(conns []connlist.Peer2PeerConnection, peers []connlist.Peer) []string {
	var bad []string
	type rng struct{ lo, hi uint32 }
	var ips []rng
	ipSet := map[string]bool{}
	workloads := 0
	seenPeer := map[string]bool{}
	for _, p := range peers {
		if seenPeer[p.String()] {
			bad = append(bad, "peer listed twice: "+p.String())
		}
		seenPeer[p.String()] = true
		if p.IsPeerIPType() {
			lo, hi, ok := StrictRange(p.String())
			if !ok {
				bad = append(bad, "IP peer is not a single contiguous range: "+p.String())
				continue
			}
			ips = append(ips, rng{lo, hi})
			ipSet[p.String()] = true
		} else {
			workloads++
		}
	}
	sort.Slice(ips, func(i, j int) bool { return ips[i].lo < ips[j].lo })
	if workloads > 0 {
		var next uint64
		for _, r := range ips {
			if uint64(r.lo) < next {
				bad = append(bad, fmt.Sprintf("IP peers overlap at %s", ipStr(r.lo)))
			} else if uint64(r.lo) > next {
				bad = append(bad, fmt.Sprintf("IP peers leave a gap before %s", ipStr(r.lo)))
			}
			if uint64(r.hi)+1 > next {
				next = uint64(r.hi) + 1
			}
		}
		if next != 1<<32 {
			bad = append(bad, "IP peers do not cover the space up to 255.255.255.255")
		}
	} else {
		for i := 1; i < len(ips); i++ {
			if ips[i].lo <= ips[i-1].hi {
				bad = append(bad, fmt.Sprintf("IP peers overlap at %s", ipStr(ips[i].lo)))
			}
		}
	}
	seen := map[string]bool{}
	for _, c := range conns {
		s, d := c.Src().String(), c.Dst().String()
		k := s + " => " + d
		if seen[k] {
			bad = append(bad, "more than one entry for "+k)
		}
		seen[k] = true
		if s == d {
			bad = append(bad, "peer paired with itself: "+k)
		}
		if c.Src().IsPeerIPType() && c.Dst().IsPeerIPType() {
			bad = append(bad, "two IP peers paired: "+k)
		}
		for _, p := range []connlist.Peer{c.Src(), c.Dst()} {
			if p.IsPeerIPType() && !ipSet[p.String()] {
				bad = append(bad, "entry uses an IP peer that is not in the returned peer list: "+p.String())
			}
		}
		pp := c.ProtocolsAndPorts()
		if c.AllProtocolsAndPorts() {
			if len(pp) != 0 {
				bad = append(bad, "all-connections entry also carries a protocol map: "+k)
			}
			continue
		}
		if len(pp) == 0 {
			bad = append(bad, "empty connection listed: "+k)
		}
		full := 0
		for proto, rs := range pp {
			if proto != "TCP" && proto != "UDP" && proto != "SCTP" {
				bad = append(bad, fmt.Sprintf("unknown protocol %q in %s", proto, k))
			}
			if len(rs) == 0 {
				bad = append(bad, fmt.Sprintf("protocol %s with no ports in %s", proto, k))
			}
			for i, r := range rs {
				if r.Start() < 1 || r.End() > 65535 || r.Start() > r.End() {
					bad = append(bad, fmt.Sprintf("port range %d-%d out of 1..65535 or empty in %s", r.Start(), r.End(), k))
				}
				if i > 0 && r.Start() <= rs[i-1].End()+1 {
					bad = append(bad, fmt.Sprintf("port ranges of %s not sorted/disjoint/non-adjacent in %s: %d-%d then %d-%d", proto, k, rs[i-1].Start(), rs[i-1].End(), r.Start(), r.End()))
				}
			}
			if len(rs) == 1 && rs[0].Start() == 1 && rs[0].End() == 65535 {
				full++
			}
		}
		if full == 3 {
			bad = append(bad, "all protocols and ports spelled as three full ranges: "+k)
		}
	}
	return bad
}
