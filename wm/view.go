package wm

import (
	"fmt"
	"sort"
	"strings"
)

// ParseConn parses a connection string of the ToolResult ("All Connections", "No Connections",
// "TCP 80,85-90,UDP 53") into protocol -> intervals.
func ParseConn(s string) map[string][][2]int {
	res := map[string][][2]int{}
	if s == "No Connections" || s == "" {
		return res
	}
	if s == "All Connections" {
		for _, p := range []string{"TCP", "UDP", "SCTP"} {
			res[p] = [][2]int{{1, 65535}}
		}
		return res
	}
	cur := ""
	for _, tok := range strings.Split(s, ",") {
		if i := strings.Index(tok, " "); i > 0 {
			cur = tok[:i]
			tok = tok[i+1:]
		}
		var a, b int
		if strings.Contains(tok, "-") {
			fmt.Sscanf(tok, "%d-%d", &a, &b)
		} else {
			fmt.Sscanf(tok, "%d", &a)
			b = a
		}
		res[cur] = append(res[cur], [2]int{a, b})
	}
	return res
}

// ConnSubset: a ⊆ b as sets of (protocol, port) points (canonical interval lists).
func ConnSubset(a, b string) bool {
	pa, pb := ParseConn(a), ParseConn(b)
	for p, ivs := range pa {
		for _, iv := range ivs {
			ok := false
			for _, jv := range pb[p] {
				if iv[0] >= jv[0] && iv[1] <= jv[1] {
					ok = true
				}
			}
			if !ok {
				return false
			}
		}
	}
	return true
}

// At returns the connection the result reports for the point (src,dst); a peer is a workload
// string, or an address (isIP) located in the unique reported range containing it.
func (tr ToolResult) At(src, dst string, ip uint32, srcIP, dstIP bool) string {
	name := func(w string, isIP bool) string {
		if !isIP {
			return w
		}
		for _, r := range tr.IPs {
			if ip >= r[0] && ip <= r[1] {
				return ipStr(r[0]) + "-" + ipStr(r[1])
			}
		}
		return "?"
	}
	if v, ok := tr.Conns[name(src, srcIP)+"|"+name(dst, dstIP)]; ok {
		return v
	}
	return "No Connections"
}

// Point is one (src,dst) point of the pointwise comparison of two results.
type Point struct {
	Src, Dst     string // workload strings ("" for the IP side)
	IP           uint32
	SrcIP, DstIP bool
}

func (p Point) String() string {
	s, d := p.Src, p.Dst
	if p.SrcIP {
		s = ipStr(p.IP)
	}
	if p.DstIP {
		d = ipStr(p.IP)
	}
	return s + " => " + d
}

// Points enumerates the common refinement of two results: all ordered workload pairs (names given)
// and every workload x IP cell (cells cut at every range start of either result) in both directions.
func Points(names []string, trs ...ToolResult) []Point {
	cuts := map[uint32]bool{0: true}
	for _, t := range trs {
		for _, r := range t.IPs {
			cuts[r[0]] = true
		}
	}
	var cs []uint32
	for c := range cuts {
		cs = append(cs, c)
	}
	sort.Slice(cs, func(i, j int) bool { return cs[i] < cs[j] })
	var pts []Point
	for _, s := range names {
		for _, d := range names {
			if s != d {
				pts = append(pts, Point{Src: s, Dst: d})
			}
		}
		for _, c := range cs {
			pts = append(pts, Point{Src: s, IP: c, DstIP: true}, Point{Dst: s, IP: c, SrcIP: true})
		}
	}
	return pts
}

func (tr ToolResult) AtPoint(p Point) string { return tr.At(p.Src, p.Dst, p.IP, p.SrcIP, p.DstIP) }

// WorkloadNames returns the peer strings of the workloads of the worlds (union, sorted).
func WorkloadNames(ws ...*World) []string {
	set := map[string]bool{}
	for _, w := range ws {
		n := w.NormalizeNS()
		for i := range n.WLs {
			set[n.WLs[i].PeerString()] = true
		}
	}
	var res []string
	for k := range set {
		res = append(res, k)
	}
	sort.Strings(res)
	return res
}
