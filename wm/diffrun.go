package wm

import (
	"k8s.io/cli-runtime/pkg/resource"

	"github.com/np-guard/netpol-analyzer/pkg/netpol/diff"
)

// DiffEntry is one entry of a computed connectivity diff, in plain data.
type DiffEntry struct {
	Type           string // added | removed | changed | unchanged
	Src, Dst       string
	SrcIP, DstIP   bool
	C1, C2         string // canonical connection strings ("No Connections" if absent)
	SrcNew, DstNew bool   // IsSrcNewOrRemoved / IsDstNewOrRemoved
	Declared       string // DiffType() of the entry itself
	SrcName        string // Name() of the source peer
	DstName        string
}

type DiffResult struct {
	Err     error
	Entries []DiffEntry
	Errors  []diff.DiffError
	Raw     diff.ConnectivityDiff
}

func connOf(c diff.AllowedConnectivity) string {
	if c == nil {
		return "No Connections"
	}
	m := map[string][]Interval{}
	if c.AllProtocolsAndPorts() {
		return "All Connections"
	}
	for p, rs := range c.ProtocolsAndPorts() {
		for _, r := range rs {
			m[string(p)] = append(m[string(p)], Interval{int(r.Start()), int(r.End())})
		}
	}
	return ConnString(m)
}

// RunDiff runs the real diff on two sets of infos.
func RunDiff(infos1, infos2 []*resource.Info, opts ...diff.DiffAnalyzerOption) (DiffResult, *diff.DiffAnalyzer) {
	da := diff.NewDiffAnalyzer(append([]diff.DiffAnalyzerOption{diff.WithLogger(quiet)}, opts...)...)
	d, err := da.ConnDiffFromResourceInfos(infos1, infos2)
	res := DiffResult{Err: err, Errors: da.Errors(), Raw: d}
	if err != nil || d == nil {
		return res, da
	}
	add := func(t string, l []diff.SrcDstDiff) {
		for _, e := range l {
			res.Entries = append(res.Entries, DiffEntry{Type: t, Src: e.Src().String(), Dst: e.Dst().String(), SrcIP: e.Src().IsPeerIPType(), DstIP: e.Dst().IsPeerIPType(),
				C1: connOf(e.Ref1Connectivity()), C2: connOf(e.Ref2Connectivity()), SrcNew: e.IsSrcNewOrRemoved(), DstNew: e.IsDstNewOrRemoved(),
				Declared: string(e.DiffType()), SrcName: e.Src().Name(), DstName: e.Dst().Name()})
		}
	}
	add("removed", d.RemovedConnections())
	add("added", d.AddedConnections())
	add("changed", d.ChangedConnections())
	add("unchanged", d.UnchangedConnections())
	return res, da
}
