package wm

import (
	"fmt"
	"sort"
	"strings"
	"sync"

	"sigs.k8s.io/yaml"
)

// ML builds a matchLabels selector from key/value pairs.
func ML(kv ...string) *Sel {
	m := map[string]string{}
	for i := 0; i+1 < len(kv); i += 2 {
		m[kv[i]] = kv[i+1]
	}
	return &Sel{ML: m}
}

// ME builds a single-requirement matchExpressions selector.
func ME(key, op string, vals ...string) *Sel {
	return &Sel{ME: []Req{{Key: key, Op: op, Vals: vals}}}
}

const NSNameKey = "kubernetes.io/metadata.name"

// YAMLDocs renders the world as the manifests handed to the tool (for replay files / samples).
func (w *World) YAMLDocs() []string {
	var res []string
	for _, inf := range w.Infos() {
		b, err := yaml.Marshal(inf.Object)
		if err != nil {
			res = append(res, "marshal error: "+err.Error())
			continue
		}
		res = append(res, string(b))
	}
	return res
}

// Brief is a compact one-line-per-object description of the world.
func (w *World) Brief() []string {
	var res []string
	for _, n := range w.NSs {
		res = append(res, fmt.Sprintf("ns %s labels=%v object=%v", n.Name, n.Labels, n.HasObj))
	}
	for _, wl := range w.WLs {
		res = append(res, fmt.Sprintf("%s %s/%s labels=%v ports=%v replicas=%d", wl.Kind, wl.NS, wl.Name, wl.Labels, wl.Ports, wl.Replicas))
	}
	for _, np := range w.NPs {
		res = append(res, "netpol "+np.String())
	}
	for _, a := range w.ANPs {
		res = append(res, "anp "+a.String())
	}
	if w.BANP != nil {
		res = append(res, "banp "+w.BANP.String())
	}
	for _, s := range w.Svcs {
		res = append(res, fmt.Sprintf("service %s/%s selector=%v ports=%v", s.NS, s.Name, s.Sel, s.Ports))
	}
	for _, i := range w.Ings {
		d := "-"
		if i.Default != nil {
			d = fmt.Sprintf("%+v", *i.Default)
		}
		res = append(res, fmt.Sprintf("ingress %s/%s defaultBackend=%s rules=%+v", i.NS, i.Name, d, i.Rules))
	}
	for _, r := range w.Routes {
		res = append(res, fmt.Sprintf("route %s/%s to=%v targetPort=%s", r.NS, r.Name, r.To, r.Target))
	}
	return res
}

func (s *Sel) String() string {
	if s == nil {
		return "<nil>"
	}
	var parts []string
	keys := make([]string, 0, len(s.ML))
	for k := range s.ML {
		keys = append(keys, k)
	}
	sort.Strings(keys)
	for _, k := range keys {
		parts = append(parts, k+"="+s.ML[k])
	}
	for _, r := range s.ME {
		parts = append(parts, fmt.Sprintf("%s %s %v", r.Key, r.Op, r.Vals))
	}
	return "{" + strings.Join(parts, ",") + "}"
}

func (p NPPort) String() string {
	s := protoOf(p.Proto)
	if p.Proto == "" {
		s = "(TCP)"
	}
	if !p.HasPort {
		return s + " *"
	}
	if p.Name != "" {
		return s + " " + p.Name
	}
	if p.End != 0 {
		return fmt.Sprintf("%s %d-%d", s, p.Num, p.End)
	}
	return fmt.Sprintf("%s %d", s, p.Num)
}

func (p NPPeer) String() string {
	if p.CIDR != "" {
		return fmt.Sprintf("ipBlock %s except %v", p.CIDR, p.Except)
	}
	return fmt.Sprintf("ns%s pod%s", p.NSSel.String(), p.Pod.String())
}

func (r NPRule) String() string {
	var ps, qs []string
	for _, p := range r.Peers {
		ps = append(ps, p.String())
	}
	for _, q := range r.Ports {
		qs = append(qs, q.String())
	}
	extra := ""
	if len(r.Peers) == 0 && r.PeersEmptyList {
		extra += " peers:[]"
	}
	if len(r.Ports) == 0 && r.PortsEmptyList {
		extra += " ports:[]"
	}
	return "[peers: " + strings.Join(ps, " | ") + "; ports: " + strings.Join(qs, ", ") + extra + "]"
}

func (np *NP) String() string {
	s := fmt.Sprintf("%s/%s podSelector=%s policyTypes=%v", np.NS, np.Name, np.PodSel.String(), np.Types)
	for _, r := range np.Ingress {
		s += " ingress" + r.String()
	}
	for _, r := range np.Egress {
		s += " egress" + r.String()
	}
	if len(np.Ingress) == 0 && np.IngressEmptyList {
		s += " ingress:[]"
	}
	if len(np.Egress) == 0 && np.EgressEmptyList {
		s += " egress:[]"
	}
	if np.UID != "" {
		s += " uid=" + np.UID
	}
	return s
}

func (ap APeer) String() string {
	if ap.Namespaces != nil {
		return "namespaces" + ap.Namespaces.String()
	}
	return "pods(ns" + ap.PodsNS.String() + ",pod" + ap.PodsPod.String() + ")"
}

func (r ARule) String() string {
	var ps []string
	for _, p := range r.Peers {
		ps = append(ps, p.String())
	}
	pt := "all-ports"
	if r.Ports != nil {
		pt = fmt.Sprintf("%v", *r.Ports)
	}
	return fmt.Sprintf("[%s %s %s]", r.Action, strings.Join(ps, "|"), pt)
}

func (a *ANP) String() string {
	s := fmt.Sprintf("%s prio=%d subject=%s", a.Name, a.Prio, a.Subject.String())
	for _, r := range a.Ingress {
		s += " ingress" + r.String()
	}
	for _, r := range a.Egress {
		s += " egress" + r.String()
	}
	return s
}

// NamedPortOnIPPossible: the documented fatal error ("cannot convert named port for an IP
// destination") is permitted (not required) exactly when some policy that governs at least one
// workload for egress has an egress rule with a named port whose peers can match an IP
// (no peers at all, or an ipBlock peer).
func (w *World) NamedPortOnIPPossible() bool {
	for i := range w.NPs {
		np := &w.NPs[i]
		if !np.governs("Egress") {
			continue
		}
		sel := false
		for _, wl := range w.WLs {
			if wl.NS == np.NS && np.PodSel.Matches(wl.Labels) {
				sel = true
			}
		}
		if !sel {
			continue
		}
		for _, r := range np.Egress {
			named := false
			for _, p := range r.Ports {
				if p.HasPort && p.Name != "" {
					named = true
				}
			}
			if !named {
				continue
			}
			if len(r.Peers) == 0 {
				return true
			}
			for _, p := range r.Peers {
				if p.CIDR != "" {
					return true
				}
			}
		}
	}
	return false
}

// NormalizeNS returns a copy in which the empty namespace is spelled "default" (the reference
// model's view of namespace-by-omission).
func (w *World) NormalizeNS() *World {
	c := *w
	c.NPs = append([]NP{}, w.NPs...)
	for i := range c.NPs {
		if c.NPs[i].NS == "" {
			c.NPs[i].NS = "default"
		}
	}
	c.WLs = append([]Workload{}, w.WLs...)
	for i := range c.WLs {
		if c.WLs[i].NS == "" {
			c.WLs[i].NS = "default"
		}
	}
	c.Svcs = append([]Svc{}, w.Svcs...)
	for i := range c.Svcs {
		if c.Svcs[i].NS == "" {
			c.Svcs[i].NS = "default"
		}
	}
	c.Ings = append([]Ing{}, w.Ings...)
	for i := range c.Ings {
		if c.Ings[i].NS == "" {
			c.Ings[i].NS = "default"
		}
	}
	c.Routes = append([]Route{}, w.Routes...)
	for i := range c.Routes {
		if c.Routes[i].NS == "" {
			c.Routes[i].NS = "default"
		}
	}
	return &c
}

// Governs exposes the policyTypes defaulting of the reference model.
func (np *NP) Governs(dir string) bool { return np.governs(dir) }

// OutcomeKey is a canonical rendering of a tool result (for counting distinct outcomes).
func (tr ToolResult) OutcomeKey() string {
	if tr.Err != nil {
		return "ERR " + tr.Err.Error()
	}
	ks := make([]string, 0, len(tr.Conns))
	for k, v := range tr.Conns {
		ks = append(ks, k+"="+v)
	}
	sort.Strings(ks)
	return strings.Join(ks, ";")
}

// ---------- the documented named-port-on-IP error, recognised behaviourally ----------

var (
	namedPortErrOnce sync.Once
	namedPortErrSig  string
)

// namedPortProbeName is a policy name that occurs nowhere else in the harness.
const namedPortProbeName = "zzprobe-named-port-policy"

// NamedPortOnIPErrSignature returns the wording by which the tool reports its documented deviation (a named port that
// would have to be resolved on an IP destination). The wording is not hard-wired: it is read off the tree under test by
// analysing the canonical input of the deviation once (one workload, one egress rule with a named port and an ipBlock
// peer) and keeping the part of the message that follows the policy's name. A tree that words the message differently
// is therefore treated alike; a tree that does not fail on the canonical input has no such deviation (empty signature,
// nothing is excused).
func NamedPortOnIPErrSignature() string {
	namedPortErrOnce.Do(func() {
		w := &World{
			NSs: []NS{{Name: "ns1", HasObj: true}},
			WLs: []Workload{{Kind: "Deployment", NS: "ns1", Name: "w1", Labels: map[string]string{"app": "a"}, Replicas: 1, Ports: []CPort{{Name: "http", Num: 80}}}},
			NPs: []NP{{NS: "ns1", Name: namedPortProbeName, Types: []string{"Egress"},
				Egress: []NPRule{{Peers: []NPPeer{{CIDR: "10.0.0.0/8"}}, Ports: []NPPort{{HasPort: true, Name: "http"}}}}}},
		}
		res, _ := RunList(w.Infos(), false)
		if res.Err == nil {
			return
		}
		msg := res.Err.Error()
		sig := msg
		if i := strings.LastIndex(msg, namedPortProbeName); i >= 0 {
			sig = msg[i+len(namedPortProbeName):]
		}
		sig = strings.TrimLeft(sig, " :'\"`)]")
		// the last clause of the message is the stable part ("<title>: <what>")
		if i := strings.LastIndex(sig, ": "); i >= 0 && len(sig)-i > 12 {
			sig = sig[i+2:]
		}
		namedPortErrSig = strings.TrimSpace(sig)
		if namedPortErrSig == "" { // the message ends with the policy's name: keep what precedes it
			namedPortErrSig = strings.TrimSpace(strings.SplitN(msg, namedPortProbeName, 2)[0])
		}
	})
	return namedPortErrSig
}

// IsNamedPortOnIPErr: err is the documented named-port-on-IP error of the tree under test.
func IsNamedPortOnIPErr(err error) bool {
	if err == nil {
		return false
	}
	sig := NamedPortOnIPErrSignature()
	return sig != "" && strings.Contains(err.Error(), sig)
}

// IsNamedPortOnIPErrText is IsNamedPortOnIPErr for a message kept as text.
func IsNamedPortOnIPErrText(msg string) bool {
	sig := NamedPortOnIPErrSignature()
	return sig != "" && strings.Contains(msg, sig)
}
