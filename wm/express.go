package wm

import (
	"fmt"

	appsv1 "k8s.io/api/apps/v1"
	batchv1 "k8s.io/api/batch/v1"
	corev1 "k8s.io/api/core/v1"
	metav1 "k8s.io/apimachinery/pkg/apis/meta/v1"
	"k8s.io/apimachinery/pkg/apis/meta/v1/unstructured"
	"k8s.io/cli-runtime/pkg/resource"
)

// Kinds a workload can be expressed as ("Pods" = bare Pods sharing one controller ownerReference).
// "PodsExtraOwner": the same, each pod also carrying a non-controller ownerReference listed first.
// "PodsCustomOwner": the same, the controller being a custom resource (kind Rollout).
var ExpressKinds = []string{"Deployment", "ReplicaSet", "StatefulSet", "DaemonSet", "Job", "CronJob", "ReplicationController", "Pods", "PodsExtraOwner", "PodsCustomOwner"}

// Express renders workload wl as kind k with the given replica count (r < 0: field absent).
// Workload-level metadata.labels and spec.selector deliberately differ from the pod-template
// labels, so that reading labels from the wrong place is visible.
func Express(wl Workload, k string, r int) []*resource.Info {
	var cps []corev1.ContainerPort
	for _, cp := range wl.Ports {
		cps = append(cps, corev1.ContainerPort{Name: cp.Name, ContainerPort: int32(cp.Num), Protocol: corev1.Protocol(cp.Proto)})
	}
	tmpl := corev1.PodTemplateSpec{ObjectMeta: metav1.ObjectMeta{Labels: wl.Labels}, Spec: corev1.PodSpec{Containers: Containers(cps), InitContainers: InitContainers()}}
	var rp *int32
	if r >= 0 {
		x := int32(r)
		rp = &x
	}
	decoy := map[string]string{"app": "decoy-metadata", "workload-level": "yes"}
	sel := &metav1.LabelSelector{MatchLabels: map[string]string{"app": "decoy-selector"}}
	om := metav1.ObjectMeta{Name: wl.Name, Namespace: wl.NS, Labels: decoy}
	switch k {
	case "Deployment":
		return []*resource.Info{info(&appsv1.Deployment{ObjectMeta: om, Spec: appsv1.DeploymentSpec{Replicas: rp, Selector: sel, Template: tmpl}}, "apps/v1", k)}
	case "ReplicaSet":
		return []*resource.Info{info(&appsv1.ReplicaSet{ObjectMeta: om, Spec: appsv1.ReplicaSetSpec{Replicas: rp, Selector: sel, Template: tmpl}}, "apps/v1", k)}
	case "StatefulSet":
		return []*resource.Info{info(&appsv1.StatefulSet{ObjectMeta: om, Spec: appsv1.StatefulSetSpec{Replicas: rp, Selector: sel, Template: tmpl}}, "apps/v1", k)}
	case "DaemonSet":
		return []*resource.Info{info(&appsv1.DaemonSet{ObjectMeta: om, Spec: appsv1.DaemonSetSpec{Selector: sel, Template: tmpl}}, "apps/v1", k)}
	case "Job":
		return []*resource.Info{info(&batchv1.Job{ObjectMeta: om, Spec: batchv1.JobSpec{Parallelism: rp, Completions: rp, Selector: sel, Template: tmpl}}, "batch/v1", k)}
	case "CronJob":
		return []*resource.Info{info(&batchv1.CronJob{ObjectMeta: om, Spec: batchv1.CronJobSpec{Schedule: "* * * * *", JobTemplate: batchv1.JobTemplateSpec{ObjectMeta: metav1.ObjectMeta{Labels: decoy}, Spec: batchv1.JobSpec{Parallelism: rp, Selector: sel, Template: tmpl}}}}, "batch/v1", k)}
	case "ReplicationController":
		return []*resource.Info{info(&corev1.ReplicationController{ObjectMeta: om, Spec: corev1.ReplicationControllerSpec{Replicas: rp, Selector: map[string]string{"app": "decoy-selector"}, Template: &tmpl}}, "v1", k)}
	case "Pods", "PodsExtraOwner", "PodsCustomOwner":
		var res []*resource.Info
		n := r
		if n < 1 {
			n = 1
		}
		for i := 0; i < n; i++ {
			inf := InfoPodIPs(wl.NS, fmt.Sprintf("%s-pod%d", wl.Name, i), wl.Name, wl.Labels, wl.Ports, PodHostIP(i), PodIP(i))
			if k == "PodsExtraOwner" {
				AddExtraOwners(inf, wl.Name)
			}
			if k == "PodsCustomOwner" {
				// the controller is a custom resource (an Argo Rollout): still one workload, of that kind
				md := inf.Object.(*unstructured.Unstructured).Object["metadata"].(map[string]interface{})
				ref := md["ownerReferences"].([]interface{})[0].(map[string]interface{})
				ref["kind"], ref["apiVersion"] = "Rollout", "argoproj.io/v1alpha1"
			}
			res = append(res, inf)
		}
		return res
	}
	panic("Express: kind " + k)
}

// ExpressedKind is the [Kind] suffix of the peer of a workload expressed as k.
func ExpressedKind(k string) string {
	if k == "Pods" || k == "PodsExtraOwner" {
		return "ReplicaSet"
	}
	if k == "PodsCustomOwner" {
		return "Rollout"
	}
	return k
}

// AddExtraOwners puts two ownerReferences that are not the controller (one says controller: false, one omits the field)
// in front of the pod's controller reference.
func AddExtraOwners(inf *resource.Info, name string) {
	md := inf.Object.(*unstructured.Unstructured).Object["metadata"].(map[string]interface{})
	refs := md["ownerReferences"].([]interface{})
	extra := map[string]interface{}{"apiVersion": "example.com/v1", "kind": "PodGroup", "name": "group-" + name, "uid": "u1", "controller": false}
	noflag := map[string]interface{}{"apiVersion": "example.com/v1", "kind": "Audit", "name": "audit-" + name, "uid": "u2"}
	md["ownerReferences"] = append([]interface{}{extra, noflag}, refs...)
}
