package wm

import (
	"fmt"
	"sort"
	"strings"

	ocroutev1 "github.com/openshift/api/route/v1"
	corev1 "k8s.io/api/core/v1"
	netv1 "k8s.io/api/networking/v1"
	metav1 "k8s.io/apimachinery/pkg/apis/meta/v1"
	"k8s.io/apimachinery/pkg/apis/meta/v1/unstructured"
	"k8s.io/apimachinery/pkg/util/intstr"
	"k8s.io/cli-runtime/pkg/resource"
)

// Target is a service targetPort / route targetPort: absent, number or name.
type Target struct {
	Set  bool
	Num  int
	Name string
}

func TNum(n int) Target     { return Target{Set: true, Num: n} }
func TName(s string) Target { return Target{Set: true, Name: s} }

func (t Target) String() string {
	switch {
	case !t.Set:
		return "-"
	case t.Name != "":
		return t.Name
	}
	return fmt.Sprint(t.Num)
}

func (t Target) k8s() intstr.IntOrString {
	if t.Name != "" {
		return intstr.FromString(t.Name)
	}
	return intstr.FromInt(t.Num)
}

type SvcPort struct {
	Proto  string // "" = TCP
	Name   string
	Port   int
	Target Target
}

type Svc struct {
	NS, Name string
	Sel      map[string]string // nil = no selector
	Ports    []SvcPort
}

// Backend of an Ingress: service + port number or port name.
type Backend struct {
	Svc      string
	PortNum  int
	PortName string
}

type Ing struct {
	NS, Name string
	Default  *Backend
	Rules    []Backend // one rule with one path each
}

type Route struct {
	NS, Name string
	To       []string // to + alternateBackends; "Kind/name" spells a target of another kind than Service (ignored by the analysis)
	Target   Target   // spec.port.targetPort
}

func (s Svc) Info() *resource.Info {
	o := &corev1.Service{ObjectMeta: metav1.ObjectMeta{Name: s.Name, Namespace: s.NS}}
	o.Spec.Selector = s.Sel
	for _, p := range s.Ports {
		sp := corev1.ServicePort{Name: p.Name, Port: int32(p.Port), Protocol: corev1.Protocol(p.Proto)}
		if p.Target.Set {
			sp.TargetPort = p.Target.k8s()
		}
		o.Spec.Ports = append(o.Spec.Ports, sp)
	}
	inf := info(o, "v1", "Service")
	if s.Sel != nil && len(s.Sel) == 0 {
		// selector: {} written out (the conversion drops an empty map): for a Service it means "no selector", like the omitted field
		inf.Object.(*unstructured.Unstructured).Object["spec"].(map[string]interface{})["selector"] = map[string]interface{}{}
	}
	return inf
}

func (i Ing) Info() *resource.Info {
	o := &netv1.Ingress{ObjectMeta: metav1.ObjectMeta{Name: i.Name, Namespace: i.NS}}
	mk := func(b Backend) netv1.IngressBackend {
		return netv1.IngressBackend{Service: &netv1.IngressServiceBackend{Name: b.Svc, Port: netv1.ServiceBackendPort{Name: b.PortName, Number: int32(b.PortNum)}}}
	}
	if i.Default != nil {
		be := mk(*i.Default)
		o.Spec.DefaultBackend = &be
	}
	for k, b := range i.Rules {
		pt := netv1.PathTypePrefix
		o.Spec.Rules = append(o.Spec.Rules, netv1.IngressRule{Host: fmt.Sprintf("h%d", k), IngressRuleValue: netv1.IngressRuleValue{HTTP: &netv1.HTTPIngressRuleValue{Paths: []netv1.HTTPIngressPath{{Path: "/", PathType: &pt, Backend: mk(b)}}}}})
	}
	return info(o, "networking.k8s.io/v1", "Ingress")
}

func (r Route) Info() *resource.Info {
	o := &ocroutev1.Route{ObjectMeta: metav1.ObjectMeta{Name: r.Name, Namespace: r.NS}}
	ref := func(t string) ocroutev1.RouteTargetReference {
		if k, n, ok := strings.Cut(t, "/"); ok {
			return ocroutev1.RouteTargetReference{Kind: k, Name: n}
		}
		return ocroutev1.RouteTargetReference{Kind: "Service", Name: t}
	}
	o.Spec.To = ref(r.To[0])
	for _, t := range r.To[1:] {
		o.Spec.AlternateBackends = append(o.Spec.AlternateBackends, ref(t))
	}
	if r.Target.Set {
		o.Spec.Port = &ocroutev1.RoutePort{TargetPort: r.Target.k8s()}
	}
	return info(o, "route.openshift.io/v1", "Route")
}

// access: the TCP container port of wl reached through service port sp (targetPort number, or name
// resolved on wl, defaulting to the port).
func access(wl *Workload, sp SvcPort) (int, bool) {
	if protoOf(sp.Proto) != "TCP" {
		return 0, false // a UDP / SCTP service port forwards no TCP
	}
	num := sp.Port
	if sp.Target.Set {
		if sp.Target.Name != "" {
			found := false
			for _, cp := range wl.Ports {
				if cp.Name == sp.Target.Name && protoOf(cp.Proto) == "TCP" {
					num, found = cp.Num, true
					break
				}
			}
			if !found {
				return 0, false
			}
		} else {
			num = sp.Target.Num
		}
	}
	for _, cp := range wl.Ports {
		if cp.Num == num && protoOf(cp.Proto) == "TCP" {
			return num, true
		}
	}
	return 0, false
}

func subsetLabels(a, b map[string]string) bool {
	for k, v := range a {
		if bv, ok := b[k]; !ok || bv != v {
			return false
		}
	}
	return true
}

// RouteDesignation: index of the service port a Route targetPort designates. The property leaves
// the rule open, so ambiguous reports whether sensible readings (name = service port name; number =
// effective targetPort / port / literal targetPort) disagree; check scopes exclude such worlds.
func RouteDesignation(s *Svc, t Target) (idx int, ambiguous bool) {
	first := func(pred func(p SvcPort) bool) int {
		for i, p := range s.Ports {
			if pred(p) {
				return i
			}
		}
		return -1
	}
	if t.Name != "" {
		byName := first(func(p SvcPort) bool { return p.Name == t.Name })
		byTarget := first(func(p SvcPort) bool { return p.Target.Set && p.Target.Name == t.Name })
		return byName, byTarget != byName && byTarget != -1
	}
	eff := first(func(p SvcPort) bool {
		if p.Target.Set {
			return p.Target.Name == "" && p.Target.Num == t.Num
		}
		return p.Port == t.Num
	})
	byPort := first(func(p SvcPort) bool { return p.Port == t.Num })
	lit := first(func(p SvcPort) bool { return p.Target.Set && p.Target.Name == "" && p.Target.Num == t.Num })
	amb := eff != byPort || (lit != -1 && lit != eff)
	return eff, amb
}

// IngressModel selects the reading of an Ingress backend port number.
type IngressModel int

const (
	// IngressByStatement: an Ingress backend designates a service port by its number or its name.
	IngressByStatement IngressModel = iota
	// IngressDefectTargetPort: defect model of a recorded finding - a backend port number also
	// designates the first service port whose literal targetPort equals it (first match in list order).
	IngressDefectTargetPort
)

// RefIngress: TCP container ports of workload wi reached by the Ingress/Route objects of its
// namespace (before intersecting with the policies), whether some object targets a service selecting
// it, and whether a Route of ambiguous designation is involved.
func (w *World) RefIngress(wi int, model IngressModel) (ports map[int]bool, targeted, ambiguous bool) {
	wl := &w.WLs[wi]
	ports = map[int]bool{}
	find := func(ns, name string) *Svc {
		for i := range w.Svcs {
			if w.Svcs[i].NS == ns && w.Svcs[i].Name == name {
				return &w.Svcs[i]
			}
		}
		return nil
	}
	selects := func(s *Svc) bool { return s != nil && len(s.Sel) > 0 && subsetLabels(s.Sel, wl.Labels) }
	for _, in := range w.Ings {
		if in.NS != wl.NS {
			continue
		}
		var bs []Backend
		if in.Default != nil {
			bs = append(bs, *in.Default)
		}
		bs = append(bs, in.Rules...)
		for _, b := range bs {
			s := find(in.NS, b.Svc)
			if !selects(s) {
				continue
			}
			targeted = true
			for _, sp := range s.Ports {
				if b.PortName == "" && protoOf(sp.Proto) != "TCP" {
					continue // a backend number designates the TCP service port of that number (a service may use one number per protocol)
				}
				m := (b.PortName != "" && sp.Name == b.PortName) || (b.PortName == "" && sp.Port == b.PortNum)
				if model == IngressDefectTargetPort && b.PortName == "" && sp.Target.Set && sp.Target.Name == "" && sp.Target.Num == b.PortNum {
					m = true
				}
				if m {
					if n, ok := access(wl, sp); ok {
						ports[n] = true
					}
					break
				}
			}
		}
	}
	for _, r := range w.Routes {
		if r.NS != wl.NS {
			continue
		}
		for _, t := range r.To {
			s := find(r.NS, t)
			if !selects(s) {
				continue
			}
			targeted = true
			if !r.Target.Set { // no port: all service ports
				for _, sp := range s.Ports {
					if n, ok := access(wl, sp); ok {
						ports[n] = true
					}
				}
				continue
			}
			idx, amb := RouteDesignation(s, r.Target)
			if amb {
				ambiguous = true
			}
			if idx >= 0 {
				if n, ok := access(wl, s.Ports[idx]); ok {
					ports[n] = true
				}
			}
		}
	}
	return ports, targeted, ambiguous
}

// DirAllowed exposes the direction-only verdict of the reference model.
func (w *World) DirAllowed(pod int, other Peer, dir string, proto string, port int) bool {
	dst := other
	if dir == "Ingress" {
		dst = Peer{WL: pod}
	}
	return w.dirAllowed(pod, other, dir, dst, proto, port)
}

// RefIngressConn: the expected connection string of the {ingress-controller} => wi line.
func (w *World) RefIngressConn(wi int, model IngressModel, ingressOnly bool) (conn string, targeted, ambiguous bool) {
	ports, targeted, ambiguous := w.RefIngress(wi, model)
	we := *w
	we.WLs = append(append([]Workload{}, w.WLs...), Workload{Kind: "Pod", NS: "ingress-controller-ns", Name: "ingress-controller"})
	ic := len(we.WLs) - 1
	var ps []int
	for p := range ports {
		ps = append(ps, p)
	}
	sort.Ints(ps)
	var m []Interval
	for _, p := range ps {
		ok := we.DirAllowed(wi, Peer{WL: ic}, "Ingress", "TCP", p)
		if !ingressOnly {
			ok = we.Allowed(Peer{WL: ic}, Peer{WL: wi}, "TCP", p)
		}
		if ok {
			if n := len(m); n > 0 && m[n-1].Hi == p-1 {
				m[n-1].Hi = p
			} else {
				m = append(m, Interval{p, p})
			}
		}
	}
	if len(m) == 0 {
		return "No Connections", targeted, ambiguous
	}
	return ConnString(map[string][]Interval{"TCP": m}), targeted, ambiguous
}
