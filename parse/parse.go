// Package parse: independent parsers of every output format of `list` (txt, json, csv, md, dot;
// with and without exposure sections) and `diff` (txt, csv, md, dot). They share no code with the
// formatters of the tool; each turns an output back into a relation.
package parse

import (
	"encoding/csv"
	"encoding/json"
	"fmt"
	"regexp"
	"sort"
	"strconv"
	"strings"
)

// Triple is one line of a list output.
type Triple struct{ Src, Dst, Conn string }

// ExpLine is one line of an exposure section: the exposed workload, the other side as printed, the connection.
type ExpLine struct{ Workload, Peer, Conn string }

// List is a parsed list output.
type List struct {
	Conns       []Triple
	Egress      []ExpLine
	Ingress     []ExpLine
	Unprotected []string // "<workload>|<Direction>"
	HasExposure bool
}

// ---------- connection strings ----------

// Conn is a parsed connection string: per protocol numeric intervals and names.
type Conn struct {
	All   bool
	None  bool
	Num   map[string][][2]int
	Named map[string][]string
}

var numRe = regexp.MustCompile(`^\d+$`)
var rangeRe = regexp.MustCompile(`^(\d+)-(\d+)$`)
var nameRe = regexp.MustCompile(`^[a-z0-9]([-a-z0-9]*[a-z0-9])?$`)

// ParseConn parses "All Connections" | "No Connections" | "SCTP 1-10,TCP 80,90-95,web,UDP 53".
func ParseConn(s string) (Conn, error) {
	c := Conn{Num: map[string][][2]int{}, Named: map[string][]string{}}
	switch s {
	case "All Connections":
		c.All = true
		return c, nil
	case "No Connections":
		c.None = true
		return c, nil
	}
	cur := ""
	for _, tok := range strings.Split(s, ",") {
		if i := strings.Index(tok, " "); i > 0 {
			p := tok[:i]
			if p != "TCP" && p != "UDP" && p != "SCTP" {
				return c, fmt.Errorf("unknown protocol %q in %q", p, s)
			}
			cur, tok = p, tok[i+1:]
		}
		if cur == "" {
			return c, fmt.Errorf("port before any protocol in %q", s)
		}
		switch {
		case numRe.MatchString(tok):
			n, _ := strconv.Atoi(tok)
			c.Num[cur] = append(c.Num[cur], [2]int{n, n})
		case rangeRe.MatchString(tok):
			m := rangeRe.FindStringSubmatch(tok)
			a, _ := strconv.Atoi(m[1])
			b, _ := strconv.Atoi(m[2])
			c.Num[cur] = append(c.Num[cur], [2]int{a, b})
		case nameRe.MatchString(tok) && len(tok) <= 15:
			c.Named[cur] = append(c.Named[cur], tok)
		default:
			return c, fmt.Errorf("bad port token %q in %q", tok, s)
		}
	}
	return c, nil
}

// Key is a canonical rendering of the parsed connection.
func (c Conn) Key() string {
	if c.All {
		return "ALL"
	}
	if c.None {
		return "NONE"
	}
	protos := map[string]bool{}
	for p := range c.Num {
		protos[p] = true
	}
	for p := range c.Named {
		protos[p] = true
	}
	var ps []string
	for p := range protos {
		ps = append(ps, p)
	}
	sort.Strings(ps)
	var parts []string
	for _, p := range ps {
		ivs := append([][2]int{}, c.Num[p]...)
		sort.Slice(ivs, func(i, j int) bool { return ivs[i][0] < ivs[j][0] })
		names := append([]string{}, c.Named[p]...)
		sort.Strings(names)
		parts = append(parts, fmt.Sprintf("%s%v%v", p, ivs, names))
	}
	if len(parts) == 0 {
		return "NONE"
	}
	return strings.Join(parts, ";")
}

// ConnKey parses and canonicalises; an unparsable string yields a key that equals nothing else.
func ConnKey(s string) string {
	c, err := ParseConn(s)
	if err != nil {
		return "UNPARSABLE(" + s + ")"
	}
	return c.Key()
}

// ---------- list: txt ----------

func ParseListTxt(out string) (List, error) {
	var res List
	sec := "conn"
	for _, l := range strings.Split(out, "\n") {
		l = strings.TrimRight(l, "\r")
		switch {
		case l == "":
			continue
		case l == "Exposure Analysis Result:":
			res.HasExposure = true
			continue
		case l == "Egress Exposure:":
			sec = "egress"
			continue
		case l == "Ingress Exposure:":
			sec = "ingress"
			continue
		case l == "Workloads not protected by network policies:":
			sec = "unprotected"
			continue
		}
		switch sec {
		case "unprotected":
			const mid = " is not protected on "
			i := strings.LastIndex(l, mid)
			if i < 0 {
				return res, fmt.Errorf("txt: bad unprotected line %q", l)
			}
			res.Unprotected = append(res.Unprotected, l[:i]+"|"+l[i+len(mid):])
		case "conn":
			i := strings.Index(l, " => ")
			j := strings.LastIndex(l, " : ")
			if i < 0 || j < i {
				return res, fmt.Errorf("txt: bad connection line %q", l)
			}
			res.Conns = append(res.Conns, Triple{l[:i], l[i+4 : j], l[j+3:]})
		default:
			parts := strings.SplitN(l, "\t", 3)
			if len(parts) != 3 {
				return res, fmt.Errorf("txt: bad exposure line %q", l)
			}
			w := strings.TrimRight(parts[0], " ")
			arrow := strings.TrimSpace(parts[1])
			rest := parts[2]
			j := strings.LastIndex(rest, " : ")
			if j < 0 {
				return res, fmt.Errorf("txt: bad exposure line %q", l)
			}
			e := ExpLine{w, rest[:j], rest[j+3:]}
			switch {
			case sec == "egress" && arrow == "=>":
				res.Egress = append(res.Egress, e)
			case sec == "ingress" && arrow == "<=":
				res.Ingress = append(res.Ingress, e)
			default:
				return res, fmt.Errorf("txt: arrow %q in section %s: %q", arrow, sec, l)
			}
		}
	}
	return res, nil
}

// ---------- list: json ----------

func ParseListJSON(out string) (List, error) {
	type item struct {
		Src  *string `json:"src"`
		Dst  *string `json:"dst"`
		Conn *string `json:"conn"`
	}
	var res List
	conv := func(items []item) ([]Triple, error) {
		var ts []Triple
		for _, it := range items {
			if it.Src == nil || it.Dst == nil || it.Conn == nil {
				return nil, fmt.Errorf("json: item with a missing field")
			}
			ts = append(ts, Triple{*it.Src, *it.Dst, *it.Conn})
		}
		return ts, nil
	}
	trimmed := strings.TrimSpace(out)
	if strings.HasPrefix(trimmed, "[") {
		var items []item
		dec := json.NewDecoder(strings.NewReader(out))
		dec.DisallowUnknownFields()
		if err := dec.Decode(&items); err != nil {
			return res, fmt.Errorf("json: %v", err)
		}
		ts, err := conv(items)
		res.Conns = ts
		return res, err
	}
	var top struct {
		Connlist []item `json:"connlist_results"`
		Exp      *struct {
			Egress  []item `json:"egress_exposure"`
			Ingress []item `json:"ingress_exposure"`
		} `json:"exposure_results"`
	}
	dec := json.NewDecoder(strings.NewReader(out))
	dec.DisallowUnknownFields()
	if err := dec.Decode(&top); err != nil {
		return res, fmt.Errorf("json: %v", err)
	}
	var err error
	if res.Conns, err = conv(top.Connlist); err != nil {
		return res, err
	}
	if top.Exp != nil {
		res.HasExposure = true
		eg, err := conv(top.Exp.Egress)
		if err != nil {
			return res, err
		}
		for _, t := range eg {
			res.Egress = append(res.Egress, ExpLine{t.Src, t.Dst, t.Conn})
		}
		in, err := conv(top.Exp.Ingress)
		if err != nil {
			return res, err
		}
		for _, t := range in {
			res.Ingress = append(res.Ingress, ExpLine{t.Dst, t.Src, t.Conn})
		}
	}
	return res, nil
}

// ---------- list: csv ----------

func ParseListCSV(out string) (List, error) {
	r := csv.NewReader(strings.NewReader(out))
	r.FieldsPerRecord = 3
	rows, err := r.ReadAll()
	var res List
	if err != nil {
		return res, fmt.Errorf("csv: %v", err)
	}
	sec := "conn"
	header := false
	for _, row := range rows {
		switch {
		case row[0] == "Exposure Analysis Result:" && row[1] == "" && row[2] == "":
			res.HasExposure = true
			continue
		case row[0] == "Egress Exposure:" && row[1] == "":
			sec, header = "egress", false
			continue
		case row[0] == "Ingress Exposure:" && row[1] == "":
			sec, header = "ingress", false
			continue
		}
		if !header {
			want := []string{"src", "dst", "conn"}
			if sec == "ingress" {
				want = []string{"dst", "src", "conn"}
			}
			if row[0] != want[0] || row[1] != want[1] || row[2] != want[2] {
				return res, fmt.Errorf("csv: section %s: expected header %v, got %v", sec, want, row)
			}
			header = true
			continue
		}
		switch sec {
		case "conn":
			res.Conns = append(res.Conns, Triple{row[0], row[1], row[2]})
		case "egress":
			res.Egress = append(res.Egress, ExpLine{row[0], row[1], row[2]})
		default:
			res.Ingress = append(res.Ingress, ExpLine{row[0], row[1], row[2]})
		}
	}
	return res, nil
}

// ---------- list: md ----------

func mdCells(l string) ([]string, error) {
	if !strings.HasPrefix(l, "| ") || !strings.HasSuffix(l, " |") {
		return nil, fmt.Errorf("md: row is not '| a | b | c |': %q", l)
	}
	cells := strings.Split(l[2:len(l)-2], " | ")
	return cells, nil
}

func ParseListMD(out string) (List, error) {
	var res List
	sec := "conn"
	state := 0 // 0: expect header, 1: expect separator, 2: rows
	for _, l := range strings.Split(out, "\n") {
		switch {
		case l == "":
			continue
		case l == "## Exposure Analysis Result:":
			res.HasExposure = true
			continue
		case l == "### Egress Exposure:":
			sec, state = "egress", 0
			continue
		case l == "### Ingress Exposure:":
			sec, state = "ingress", 0
			continue
		}
		if state == 1 {
			if !strings.HasPrefix(l, "|---") {
				return res, fmt.Errorf("md: expected separator row, got %q", l)
			}
			state = 2
			continue
		}
		cells, err := mdCells(l)
		if err != nil {
			return res, err
		}
		if len(cells) != 3 {
			return res, fmt.Errorf("md: row with %d cells: %q", len(cells), l)
		}
		if state == 0 {
			want := "src|dst|conn"
			if sec == "ingress" {
				want = "dst|src|conn"
			}
			if strings.Join(cells, "|") != want {
				return res, fmt.Errorf("md: section %s: expected header %s, got %q", sec, want, l)
			}
			state = 1
			continue
		}
		switch sec {
		case "conn":
			res.Conns = append(res.Conns, Triple{cells[0], cells[1], cells[2]})
		case "egress":
			res.Egress = append(res.Egress, ExpLine{cells[0], cells[1], cells[2]})
		default:
			res.Ingress = append(res.Ingress, ExpLine{cells[0], cells[1], cells[2]})
		}
	}
	return res, nil
}

// ---------- dot ----------

type DotNode struct{ ID, Label, Color, Cluster string }
type DotEdge struct {
	Src, Dst, Label, Color string
	Dashed                 bool
}
type Dot struct {
	Nodes map[string]DotNode
	Edges []DotEdge
}

var dotEdgeRe = regexp.MustCompile(`^\t+("(?:[^"\\]|\\.)*") -> ("(?:[^"\\]|\\.)*") \[label=("(?:[^"\\]|\\.)*") color="([^"]*)" fontcolor="[^"]*" weight=[0-9.]+( style=dashed)?\]$`)
var dotNodeRe = regexp.MustCompile(`^\t+("(?:[^"\\]|\\.)*") \[label=("(?:[^"\\]|\\.)*") color="([^"]*)" fontcolor="[^"]*"( shape=\w+)?\]$`)
var dotSubRe = regexp.MustCompile(`^\tsubgraph ("(?:[^"\\]|\\.)*") \{$`)
var dotLabelRe = regexp.MustCompile(`^\t\tlabel=("(?:[^"\\]|\\.)*")$`)

func unq(s string) string {
	u, err := strconv.Unquote(s)
	if err != nil {
		return s
	}
	return u
}

// ParseDot parses the digraph written by list and diff (the diff legend is skipped).
func ParseDot(out string) (Dot, error) {
	d := Dot{Nodes: map[string]DotNode{}}
	lines := strings.Split(strings.TrimRight(out, "\n"), "\n")
	if len(lines) < 2 || lines[0] != "digraph {" || lines[len(lines)-1] != "}" {
		return d, fmt.Errorf("dot: not a 'digraph { ... }'")
	}
	cluster := ""
	var clusterNodes []string
	inLegend := false
	for _, l := range lines[1 : len(lines)-1] {
		if inLegend {
			if l == "\t}" {
				inLegend = false
			}
			continue
		}
		switch {
		case l == "\tsubgraph cluster_legend {":
			inLegend = true
		case l == "\tnodesep=0.5":
		case dotSubRe.MatchString(l):
			cluster = "?"
			clusterNodes = nil
		case cluster != "" && l == "\t}":
			for _, id := range clusterNodes {
				n := d.Nodes[id]
				n.Cluster = cluster
				d.Nodes[id] = n
			}
			cluster = ""
		case cluster != "" && dotLabelRe.MatchString(l):
			cluster = unq(dotLabelRe.FindStringSubmatch(l)[1])
		case cluster != "" && (strings.HasPrefix(l, "\t\tcolor=") || strings.HasPrefix(l, "\t\tfontcolor=")):
		case dotEdgeRe.MatchString(l):
			m := dotEdgeRe.FindStringSubmatch(l)
			d.Edges = append(d.Edges, DotEdge{unq(m[1]), unq(m[2]), unq(m[3]), m[4], m[5] != ""})
		case dotNodeRe.MatchString(l):
			m := dotNodeRe.FindStringSubmatch(l)
			id := unq(m[1])
			if _, dup := d.Nodes[id]; dup {
				return d, fmt.Errorf("dot: node %q declared twice", id)
			}
			d.Nodes[id] = DotNode{ID: id, Label: unq(m[2]), Color: m[3]}
			if cluster != "" {
				clusterNodes = append(clusterNodes, id)
			}
		default:
			return d, fmt.Errorf("dot: unrecognised line %q", l)
		}
	}
	for _, e := range d.Edges {
		for _, id := range []string{e.Src, e.Dst} {
			if _, ok := d.Nodes[id]; !ok {
				return d, fmt.Errorf("dot: edge uses undeclared node %q", id)
			}
		}
	}
	return d, nil
}

// ListFromDot turns a list digraph into the common form (exposure edges by colour).
func ListFromDot(d Dot) List {
	var res List
	for _, e := range d.Edges {
		switch e.Color {
		case "darkorange2": // ingress exposure: peer -> workload
			res.Ingress = append(res.Ingress, ExpLine{e.Dst, e.Src, e.Label})
			res.HasExposure = true
		case "darkorange4": // egress exposure: workload -> peer
			res.Egress = append(res.Egress, ExpLine{e.Src, e.Dst, e.Label})
			res.HasExposure = true
		default:
			res.Conns = append(res.Conns, Triple{e.Src, e.Dst, e.Label})
		}
	}
	return res
}

// ---------- representative peer names ----------

// Sel is a parsed label selector of a representative peer name.
type Sel struct {
	ML map[string]string
	ME []string // "key|Operator|v1 v2" sorted
}

func (s Sel) Key() string {
	var ks []string
	for k, v := range s.ML {
		ks = append(ks, k+"="+v)
	}
	sort.Strings(ks)
	me := append([]string{}, s.ME...)
	sort.Strings(me)
	return "{" + strings.Join(ks, ",") + "}{" + strings.Join(me, ";") + "}"
}

// splitTop splits at commas that are outside braces and brackets.
func splitTop(s string) []string {
	var res []string
	depth, start := 0, 0
	for i, r := range s {
		switch r {
		case '{', '[':
			depth++
		case '}', ']':
			depth--
		case ',':
			if depth == 0 {
				res = append(res, s[start:i])
				start = i + 1
			}
		}
	}
	if start < len(s) {
		res = append(res, s[start:])
	}
	return res
}

var exprRe = regexp.MustCompile(`^\{Key:([^,]*),Operator:(\w+),Values:\[([^\]]*)\],\}$`)

// ParseSelBody parses "k=v,k2=v2,{Key:app,Operator:In,Values:[x z],}" (the part between the outer braces).
func ParseSelBody(body string) (Sel, error) {
	s := Sel{ML: map[string]string{}}
	for _, part := range splitTop(body) {
		if m := exprRe.FindStringSubmatch(part); m != nil {
			vals := strings.Fields(m[3])
			sort.Strings(vals)
			s.ME = append(s.ME, m[1]+"|"+m[2]+"|"+strings.Join(vals, " "))
			continue
		}
		i := strings.Index(part, "=")
		if i <= 0 || strings.ContainsAny(part, "{}") {
			return s, fmt.Errorf("bad selector requirement %q", part)
		}
		s.ML[part[:i]] = part[i+1:]
	}
	return s, nil
}

// RepPeer is a parsed peer of an exposure line.
type RepPeer struct {
	Entire bool
	IP     bool
	NS     Sel // namespace part (a plain namespace name N is {kubernetes.io/metadata.name=N})
	Pod    Sel
}

const nsNameKey = "kubernetes.io/metadata.name"

var ipRangeRe = regexp.MustCompile(`^\d+\.\d+\.\d+\.\d+-\d+\.\d+\.\d+\.\d+$`)

func parseParts(nsPart, podPart string, brackets bool) (RepPeer, error) {
	var p RepPeer
	p.NS, p.Pod = Sel{ML: map[string]string{}}, Sel{ML: map[string]string{}}
	strip := func(s, prefix string) (string, bool) {
		if brackets {
			if !strings.HasPrefix(s, "[") || !strings.HasSuffix(s, "]") {
				return "", false
			}
			s = s[1 : len(s)-1]
		}
		if !strings.HasPrefix(s, prefix+" with {") || !strings.HasSuffix(s, "}") {
			return "", false
		}
		return s[len(prefix)+7 : len(s)-1], true
	}
	var err error
	all := func(s, what string) bool {
		if brackets {
			return s == "["+what+"]"
		}
		return s == what
	}
	switch {
	case all(nsPart, "all namespaces"):
	default:
		if body, ok := strip(nsPart, "namespace"); ok {
			if p.NS, err = ParseSelBody(body); err != nil {
				return p, err
			}
		} else if strings.ContainsAny(nsPart, "[]{} ") {
			return p, fmt.Errorf("bad namespace part %q", nsPart)
		} else {
			p.NS.ML[nsNameKey] = nsPart
		}
	}
	switch {
	case all(podPart, "all pods"):
	default:
		body, ok := strip(podPart, "pod")
		if !ok {
			return p, fmt.Errorf("bad pod part %q", podPart)
		}
		if p.Pod, err = ParseSelBody(body); err != nil {
			return p, err
		}
	}
	return p, nil
}

// ParseRepPeer parses the peer of an exposure line of txt/json/csv/md: "entire-cluster", an IP range, or "<ns part>/<pod part>".
func ParseRepPeer(s string) (RepPeer, error) {
	if s == "entire-cluster" {
		return RepPeer{Entire: true}, nil
	}
	if ipRangeRe.MatchString(s) {
		return RepPeer{IP: true}, nil
	}
	// the separator is the '/' at bracket depth 0
	depth := 0
	for i, r := range s {
		switch r {
		case '[', '{':
			depth++
		case ']', '}':
			depth--
		case '/':
			if depth == 0 {
				return parseParts(s[:i], s[i+1:], true)
			}
		}
	}
	return RepPeer{}, fmt.Errorf("bad representative peer %q", s)
}

// ParseRepPeerDot parses the node id of a representative peer in dot: "<pod part>_in_<ns part>" (no brackets).
func ParseRepPeerDot(s string) (RepPeer, error) {
	if s == "entire-cluster" {
		return RepPeer{Entire: true}, nil
	}
	if ipRangeRe.MatchString(s) {
		return RepPeer{IP: true}, nil
	}
	i := strings.LastIndex(s, "_in_")
	if i < 0 {
		return RepPeer{}, fmt.Errorf("bad representative node %q", s)
	}
	return parseParts(s[i+4:], s[:i], false)
}

func (p RepPeer) Key() string {
	switch {
	case p.Entire:
		return "ENTIRE"
	case p.IP:
		return "IP"
	}
	return "ns" + p.NS.Key() + "/pod" + p.Pod.Key()
}

// ---------- diff ----------

type DiffLine struct{ Type, Src, Dst, C1, C2, Info string }

// the two columns are named after the references (ref1/ref2 by default, dir1/dir2 in the CLI)
var diffTxtRe = regexp.MustCompile(`^diff-type: (\w+), source: (.*), destination: (.*), (?:ref|dir)1: (.*), (?:ref|dir)2: (.*?)(?:, workloads-diff-info: (.*))?$`)

func ParseDiffTxt(out string) ([]DiffLine, error) {
	var res []DiffLine
	lines := strings.Split(strings.TrimRight(out, "\n"), "\n")
	if len(lines) == 1 && lines[0] == "" {
		return nil, nil
	}
	if lines[0] != "Connectivity diff:" {
		return nil, fmt.Errorf("diff txt: missing header, got %q", lines[0])
	}
	for _, l := range lines[1:] {
		if l == "" {
			continue
		}
		m := diffTxtRe.FindStringSubmatch(l)
		if m == nil {
			return nil, fmt.Errorf("diff txt: bad line %q", l)
		}
		res = append(res, DiffLine{m[1], m[2], m[3], m[4], m[5], m[6]})
	}
	return res, nil
}

func ParseDiffCSV(out string) ([]DiffLine, error) {
	r := csv.NewReader(strings.NewReader(out))
	r.FieldsPerRecord = 6
	rows, err := r.ReadAll()
	if err != nil {
		return nil, fmt.Errorf("diff csv: %v", err)
	}
	if len(rows) == 0 {
		return nil, nil
	}
	if h := strings.Join(rows[0], "|"); h != "diff-type|source|destination|ref1|ref2|workloads-diff-info" && h != "diff-type|source|destination|dir1|dir2|workloads-diff-info" {
		return nil, fmt.Errorf("diff csv: bad header %v", rows[0])
	}
	var res []DiffLine
	for _, row := range rows[1:] {
		res = append(res, DiffLine{row[0], row[1], row[2], row[3], row[4], row[5]})
	}
	return res, nil
}

func ParseDiffMD(out string) ([]DiffLine, error) {
	lines := strings.Split(strings.TrimRight(out, "\n"), "\n")
	if len(lines) == 1 && lines[0] == "" {
		return nil, nil
	}
	if len(lines) < 2 || (lines[0] != "| diff-type | source | destination | ref1 | ref2 | workloads-diff-info |" && lines[0] != "| diff-type | source | destination | dir1 | dir2 | workloads-diff-info |") || !strings.HasPrefix(lines[1], "|---") {
		return nil, fmt.Errorf("diff md: bad header")
	}
	var res []DiffLine
	for _, l := range lines[2:] {
		if l == "" {
			continue
		}
		if !strings.HasPrefix(l, "| ") || !strings.HasSuffix(l, " |") {
			return nil, fmt.Errorf("diff md: bad row %q", l)
		}
		cells := strings.Split(l[2:len(l)-2], " | ")
		if len(cells) != 6 {
			return nil, fmt.Errorf("diff md: row with %d cells: %q", len(cells), l)
		}
		res = append(res, DiffLine{cells[0], cells[1], cells[2], cells[3], cells[4], strings.TrimSpace(cells[5])})
	}
	return res, nil
}

var dotChangedRe = regexp.MustCompile(`^(.*) \((?:ref|dir)1: (.*)\)$`)

// DiffFromDot turns a diff digraph into entries (incl. unchanged) and node colours.
func DiffFromDot(d Dot) ([]DiffLine, map[string]string, error) {
	var res []DiffLine
	for _, e := range d.Edges {
		switch e.Color {
		case "#008000":
			res = append(res, DiffLine{"added", e.Src, e.Dst, "No Connections", e.Label, ""})
		case "red2":
			res = append(res, DiffLine{"removed", e.Src, e.Dst, e.Label, "No Connections", ""})
		case "grey":
			res = append(res, DiffLine{"unchanged", e.Src, e.Dst, e.Label, e.Label, ""})
		case "magenta":
			m := dotChangedRe.FindStringSubmatch(e.Label)
			if m == nil {
				return nil, nil, fmt.Errorf("diff dot: changed edge label %q", e.Label)
			}
			res = append(res, DiffLine{"changed", e.Src, e.Dst, m[2], m[1], ""})
		default:
			return nil, nil, fmt.Errorf("diff dot: edge colour %q", e.Color)
		}
	}
	cols := map[string]string{}
	for id, n := range d.Nodes {
		cols[id] = n.Color
	}
	return res, cols, nil
}
