package main

import (
	"fmt"
	"os"

	"github.com/np-guard/netpol-analyzer/pkg/netpol/connlist"
	"github.com/np-guard/netpol-analyzer/pkg/netpol/diff"

	"verif/wm"
)

func main() {
	all := &wm.Sel{}
	w := &wm.World{
		NSs: []wm.NS{{Name: "ns1", Labels: map[string]string{"team": "a"}, HasObj: true}},
		WLs: []wm.Workload{
			{Kind: "Deployment", NS: "ns1", Name: "w1", Labels: map[string]string{"app": "a"}, Ports: []wm.CPort{{Name: "http", Num: 8000}}, Replicas: 1},
			{Kind: "StatefulSet", NS: "ns-2", Name: "w2", Labels: map[string]string{"app": "b"}, Ports: []wm.CPort{{Num: 80}}, Replicas: 2}},
		NPs: []wm.NP{{NS: "ns1", Name: "p", PodSel: *wm.ML("app", "a"), Types: []string{"Ingress", "Egress"},
			Ingress: []wm.NPRule{{Peers: []wm.NPPeer{{NSSel: wm.ML("team", "q", "env", "p"), Pod: &wm.Sel{ML: map[string]string{"a": "b"}, ME: []wm.Req{{Key: "app", Op: "In", Vals: []string{"x", "z"}}, {Key: "tier", Op: "Exists"}}}}, {CIDR: "10.0.0.0/8", Except: []string{"10.1.0.0/16"}}}, Ports: []wm.NPPort{{HasPort: true, Num: 80}, {HasPort: true, Num: 90, End: 95}, {HasPort: true, Num: 53, Proto: "UDP"}}},
				{Peers: []wm.NPPeer{{NSSel: all}}, Ports: []wm.NPPort{{HasPort: true, Name: "http"}}}},
			Egress: []wm.NPRule{{Peers: []wm.NPPeer{{NSSel: wm.ML(wm.NSNameKey, "backend")}, {Pod: wm.ML("app", "x")}}, Ports: []wm.NPPort{{HasPort: true, Name: "web"}, {HasPort: true, Num: 8080}}}}}},
		Svcs: []wm.Svc{{NS: "ns-2", Name: "s", Sel: map[string]string{"app": "b"}, Ports: []wm.SvcPort{{Port: 80}}}},
		Ings: []wm.Ing{{NS: "ns-2", Name: "i", Default: &wm.Backend{Svc: "s", PortNum: 80}}},
	}
	exp := len(os.Args) > 1 && os.Args[1] == "exp"
	for _, f := range []string{"txt", "json", "csv", "md", "dot"} {
		opts := []connlist.ConnlistAnalyzerOption{connlist.WithLogger(wm.Quiet()), connlist.WithMuteErrsAndWarns(), connlist.WithOutputFormat(f)}
		if exp {
			opts = append(opts, connlist.WithExposureAnalysis())
		}
		ca := connlist.NewConnlistAnalyzer(opts...)
		conns, _, err := ca.ConnlistFromResourceInfos(w.Infos())
		out, err2 := ca.ConnectionsListToString(conns)
		fmt.Printf("=================== %s (%v %v)\n%s\n", f, err, err2, out)
	}
	if len(os.Args) > 1 && os.Args[1] == "diff" {
		w2 := *w
		w2.WLs = append([]wm.Workload{}, w.WLs...)
		w2.WLs = append(w2.WLs, wm.Workload{Kind: "Deployment", NS: "ns1", Name: "w3", Labels: map[string]string{"app": "c"}, Replicas: 1})
		w2.NPs = []wm.NP{{NS: "ns1", Name: "p", PodSel: *wm.ML("app", "a"), Types: []string{"Ingress"}, Ingress: []wm.NPRule{{Peers: []wm.NPPeer{{CIDR: "10.0.0.0/9"}}, Ports: []wm.NPPort{{HasPort: true, Num: 80}}}, {Peers: []wm.NPPeer{{NSSel: all}}, Ports: []wm.NPPort{{HasPort: true, Num: 8000}, {HasPort: true, Num: 9000}}}}}}
		w2.Ings = nil
		for _, f := range []string{"txt", "csv", "md", "dot"} {
			da := diff.NewDiffAnalyzer(diff.WithLogger(wm.Quiet()), diff.WithOutputFormat(f))
			d, err := da.ConnDiffFromResourceInfos(w.Infos(), w2.Infos())
			out, err2 := da.ConnectivityDiffToString(d)
			fmt.Printf("=================== diff %s (%v %v)\n%s\n", f, err, err2, out)
		}
	}
}
