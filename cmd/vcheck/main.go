// vcheck drives one property check: vcheck <Cxx> quick|thorough, or vcheck replay <file>.
package main

import (
	"os"

	"verif/fw"

	_ "verif/checks/c01"
	_ "verif/checks/c02"
	_ "verif/checks/c03"
	_ "verif/checks/c04"
	_ "verif/checks/c05"
	_ "verif/checks/c06"
	_ "verif/checks/c07"
	_ "verif/checks/c08"
	_ "verif/checks/c09"
	_ "verif/checks/c10"
	_ "verif/checks/c11"
	_ "verif/checks/c12"
	_ "verif/checks/c13"
	_ "verif/checks/c14"
	_ "verif/checks/c15"
	_ "verif/checks/c16"
	_ "verif/checks/c17"
	_ "verif/checks/c18"
	_ "verif/checks/c19"
)

func main() {
	root := os.Getenv("VERIF_ROOT")
	if root == "" {
		root = "/verif"
	}
	code := fw.Main(root, os.Args[1:])
	fw.CleanupScratch()
	os.Exit(code)
}
